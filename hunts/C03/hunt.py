"""Bug hunt for the property

    "Component listings mirror exactly the components of agents in the model"

Run with:  cd /tmp/wt-C03-h && PYTHONPATH=/tmp/wt-C03-h /venv/bin/python hunt.py

Only the public API of ECAgent is used.  Every experiment prints OK, or a description of what went wrong.
Results are classified as

    VIOLATION   genuine violation inside the stated scope            -> exit status 1
    BORDERLINE  misbehaviour that needs a reading of the scope that the statement does not clearly give
                (reported, but NOT counted)
    NOTE        unspecified / out of scope behaviour worth knowing   (not counted)

``hunt.py --strict`` counts the BORDERLINE findings as violations as well.  ``hunt.py --quick`` skips the two
exhaustive runs of length 5 (the full run takes about three minutes).

Already-known problems of the unmodified code are deliberately avoided by the generators (attach / detach on a
resident agent is always accompanied by register / deregister, and after a manual registration only the *content* of a
listing is compared, not its order).
"""
import copy
import itertools
import os
import pickle
import random
import subprocess
import sys
import warnings

from ECAgent.Core import (Model, Agent, Component, Environment, System, AgentNotFoundError, DuplicateAgentError,
                          ComponentNotFoundError)
from ECAgent.Environments import SpaceWorld, DiscreteWorld, LineWorld, GridWorld, PositionComponent
from ECAgent.Collectors import Collector
import ECAgent.Batching as Batching

warnings.simplefilter('ignore')

RESULTS = []  # (experiment, classification, text)
NOTES = []


def report(name, problems, classification='VIOLATION'):
    if not problems:
        print(f'[OK]         {name}')
    else:
        for p in problems[:3]:
            print(f'[{classification:<10}] {name}: {p}')
        if len(problems) > 3:
            print(f'             ... {len(problems) - 3} more')
        RESULTS.append((name, classification, problems))


# ---------------------------------------------------------------------------------------------------------------------
# Component types used by the experiments (all user defined, identity equality)
# ---------------------------------------------------------------------------------------------------------------------
class CA(Component):
    pass


class CB(Component):
    pass


class CSub(CA):  # subclass of another user component type
    pass


class CFalsyLen(Component):  # falsy through __len__
    def __len__(self):
        return 0


class CFalsyBool(Component):  # falsy through __bool__
    def __bool__(self):
        return False


class CSlots(Component):
    __slots__ = ['value']

    def __init__(self, agent, model, value=0):
        super().__init__(agent, model)
        self.value = value


class MyPos(PositionComponent):  # user type derived from the world-managed one (it is a different type)
    pass


def _same_name_type():
    class CA(Component):  # same __name__ as the module level CA, different class
        pass
    return CA


CA2 = _same_name_type()

TYPES = [CA, CB, CSub, CFalsyLen, CFalsyBool, CSlots, MyPos, CA2]


class StrId(str):
    pass


class FalsyAgent(Agent):
    """An agent that is always falsy and has a strange length."""
    def __bool__(self):
        return False


WORLD_KINDS = ['plain', 'space', 'space_wrap', 'space0', 'discrete', 'discrete3', 'line', 'grid', 'grid_wrap']


def make_model(kind, seed=None):
    m = Model(seed=seed)
    if kind == 'plain':
        pass
    elif kind == 'space':
        m.environment = SpaceWorld(m, 5.0, 4.0, 3.0)
    elif kind == 'space_wrap':
        m.set_environment(SpaceWorld(m, 5.0, 4.0, wrap_env=True))
    elif kind == 'space0':
        m.environment = SpaceWorld(m, 0)
    elif kind == 'discrete':
        m.environment = DiscreteWorld(m, 4, 3)
    elif kind == 'discrete3':
        m.set_environment(DiscreteWorld(m, 3, 3, 2, wrap_env=True))
    elif kind == 'line':
        m.environment = LineWorld(m, 6)
    elif kind == 'grid':
        m.set_environment(GridWorld(m, 4, 4))
    elif kind == 'grid_wrap':
        m.environment = GridWorld(m, 4, 4, wrap_env=True)
    else:
        raise ValueError(kind)
    return m


def is_spatial(model):
    return isinstance(model.environment, SpaceWorld)


def join(model, agent, rnd=None, bad=False):
    env = model.environment
    if not is_spatial(model):
        env.add_agent(agent)
        return
    w, h, d = env.width, env.height, env.depth
    off = 1 if isinstance(env, DiscreteWorld) else 0
    rnd = rnd or random
    if bad:
        env.add_agent(agent, -1, 0, 0)
        return
    mode = rnd.randrange(3)
    if mode == 0:
        env.add_agent(agent)  # defaulted coordinates
    else:
        x = rnd.randint(0, max(int(w) - off, 0))
        y = rnd.randint(0, max(int(h) - off, 0))
        z = rnd.randint(0, max(int(d) - off, 0))
        if mode == 1:
            env.add_agent(agent, x, y, z)
        else:
            env.add_agent(agent, x_pos=x, y_pos=y)


def listing_ids(model, T):
    """The listing exposed by the model through all three access paths (they have to agree)."""
    a = model.systems.get_components(T)
    b = model.systems[T]
    c = model.systems[T, False]
    try:
        d = model.systems[T, True]
    except KeyError:
        d = None
    try:
        e = model.systems.get_components(T, throw_error=True)
    except KeyError:
        e = None
    if not (a is b and b is c and c is d and d is e):
        return 'ACCESS PATHS DISAGREE'
    if a is None:
        return None
    return [id(x) for x in a]


def check_model(model, resident, types, unordered=(), where=''):
    """``resident``: list of agents in joining order (the shadow of the environment kept by the test)."""
    problems = []
    env_agents = list(model.environment.agents.values())
    if len(env_agents) != len(resident) or any(x is not y for x, y in zip(env_agents, resident)):
        problems.append(f'{where}: environment holds {[a.id for a in env_agents]} expected {[a.id for a in resident]}')
    for T in types:
        exp = [id(a.components[T]) for a in resident if T in a.components] or None
        got = listing_ids(model, T)
        if T in unordered and exp is not None and isinstance(got, list):
            ok = sorted(exp) == sorted(got)
        else:
            ok = exp == got
        if not ok:
            problems.append(f'{where}: listing of {T.__name__} is {got} expected {exp}')
    return problems


# ---------------------------------------------------------------------------------------------------------------------
# E1  exhaustive short histories, one model, every world kind
# ---------------------------------------------------------------------------------------------------------------------
def exp_exhaustive(kind, depth):
    """Two agents, two component types; alphabet: join / leave / attach / detach (attach and detach on a resident
    agent are accompanied by register / deregister).  Illegal operations (join twice, leave when absent, attach
    twice, detach what is not there) have to raise and leave everything as it was."""
    types = [CA, CFalsyLen]
    ops = []
    for ai in range(2):
        ops.append(('join', ai, None))
        ops.append(('leave', ai, None))
        for T in types:
            ops.append(('attach', ai, T))
            ops.append(('detach', ai, T))
    problems = []
    for seq in itertools.product(ops, repeat=depth):
        m = make_model(kind)
        other = make_model('plain')  # a second model that must never see anything
        agents = [Agent('a0', m), FalsyAgent('', m)]
        resident = []
        unordered = set()
        trace = []
        for op, ai, T in seq:
            a = agents[ai]
            trace.append((op, a.id, T.__name__ if T else None))
            try:
                if op == 'join':
                    legal = a not in resident
                    join(m, a, random.Random(0))
                    if not legal:
                        problems.append(f'{kind} {trace}: second join did not raise')
                    resident.append(a)
                elif op == 'leave':
                    legal = a in resident
                    m.environment.remove_agent(a.id)
                    if not legal:
                        problems.append(f'{kind} {trace}: leave of absent agent did not raise')
                    resident.remove(a)
                elif op == 'attach':
                    c = T(a, m)
                    a.add_component(c)
                    if a in resident:
                        m.systems.register_component(c)
                        unordered.add(T)
                elif op == 'detach':
                    c = a.get_component(T)
                    a.remove_component(T)
                    if a in resident:
                        m.systems.deregister_component(c)
            except (DuplicateAgentError, AgentNotFoundError, ValueError, ComponentNotFoundError):
                pass
            except Exception as e:  # anything else is unexpected
                problems.append(f'{kind} {trace}: unexpected {type(e).__name__}: {e}')
                break
            p = check_model(m, resident, types, unordered, where=f'{kind} {trace}')
            p += check_model(other, [], types, where=f'{kind} other model {trace}')
            if p:
                problems.extend(p)
                break
        if len(problems) > 5:
            break
    return problems


# ---------------------------------------------------------------------------------------------------------------------
# E2  long random histories, several models of every kind alive at once, agents hop between models
# ---------------------------------------------------------------------------------------------------------------------
def exp_random(seed, steps=400, in_step=False):
    rnd = random.Random(seed)
    kinds = [rnd.choice(WORLD_KINDS) for _ in range(rnd.randint(2, 4))]
    models = [make_model(k, seed=seed) for k in kinds]
    resident = [[] for _ in models]
    unordered = [set() for _ in models]
    ids = ['a', 'b', StrId('c'), '', 0, 1.5, ('t', 1), -0.0 + 7, 10 ** 30, StrId('zz')]
    # ids must be distinct as dictionary keys
    agents = []
    for i, aid in enumerate(ids):
        cls = FalsyAgent if i % 3 == 0 else Agent
        agents.append(cls(aid, rnd.choice(models)))
    home = {id(a): None for a in agents}  # index of the model the agent currently resides in (at most one)
    trace = []
    problems = []

    pending = []  # operations executed from inside a running timestep

    class Stepper(System):
        def execute(self):
            while pending:
                pending.pop(0)()

    if in_step:
        for i, m in enumerate(models):
            m.systems.add_system(Stepper(f'stepper{i}', m, priority=rnd.randint(-3, 3)))

    def run(mi, fn):
        if in_step and rnd.random() < 0.7:
            pending.append(fn)
            models[mi].execute()
            if pending:  # model complete -> nothing ran; run directly
                pending.pop(0)()
        else:
            fn()

    for step in range(steps):
        a = rnd.choice(agents)
        h = home[id(a)]
        r = rnd.random()
        try:
            if r < 0.25:  # join
                mi = rnd.randrange(len(models))
                if h is None:
                    trace.append(('join', a.id, kinds[mi]))
                    run(mi, lambda: join(models[mi], a, rnd))
                    resident[mi].append(a)
                    home[id(a)] = mi
                elif h == mi:
                    trace.append(('join again', a.id, kinds[mi]))
                    try:
                        run(mi, lambda: join(models[mi], a, rnd))
                        problems.append(f'seed {seed} {trace[-6:]}: second join did not raise')
                    except DuplicateAgentError:
                        pass
                else:
                    continue  # one model at a time (see the BORDERLINE experiment for the other case)
            elif r < 0.30:  # join that must fail: other agent object with an id that is already taken
                mi = rnd.randrange(len(models))
                if resident[mi]:
                    twin = Agent(rnd.choice(resident[mi]).id, models[mi])
                    twin.add_component(CA(twin, models[mi]))
                    trace.append(('twin join', twin.id, kinds[mi]))
                    try:
                        run(mi, lambda: join(models[mi], twin, rnd))
                        problems.append(f'seed {seed} {trace[-6:]}: duplicate id accepted')
                    except DuplicateAgentError:
                        pass
            elif r < 0.34:  # join that must fail: position off the map
                mi = rnd.randrange(len(models))
                env = models[mi].environment
                if h is None and is_spatial(models[mi]) and env.width > 0:
                    trace.append(('bad join', a.id, kinds[mi]))
                    try:
                        run(mi, lambda: join(models[mi], a, rnd, bad=True))
                        problems.append(f'seed {seed} {trace[-6:]}: off-map join accepted')
                    except Exception as e:
                        if type(e) is not Exception:
                            raise
            elif r < 0.52:  # leave
                if h is not None:
                    trace.append(('leave', a.id, kinds[h]))
                    run(h, lambda: models[h].environment.remove_agent(a.id))
                    resident[h].remove(a)
                    home[id(a)] = None
                else:
                    mi = rnd.randrange(len(models))
                    trace.append(('leave absent', a.id, kinds[mi]))
                    try:
                        run(mi, lambda: models[mi].environment.remove_agent(a.id))
                        problems.append(f'seed {seed} {trace[-6:]}: leave of absent agent did not raise')
                    except AgentNotFoundError:
                        pass
            elif r < 0.76:  # attach
                T = rnd.choice(TYPES)
                if T not in a.components:
                    c = T(a, rnd.choice(models))
                    trace.append(('attach', a.id, T.__name__, 'resident' if h is not None else 'absent'))

                    def do():
                        a.add_component(c)
                        if h is not None:
                            models[h].systems.register_component(c)
                            unordered[h].add(T)
                    run(h if h is not None else 0, do)
            elif r < 0.94:  # detach
                own = [T for T in a.components if T is not PositionComponent]
                if own:
                    T = rnd.choice(own)
                    c = a[T]
                    trace.append(('detach', a.id, T.__name__, 'resident' if h is not None else 'absent'))

                    def do():
                        a.remove_component(T)
                        if h is not None:
                            models[h].systems.deregister_component(c)
                    run(h if h is not None else 0, do)
            elif r < 0.97:  # plain timestep
                mi = rnd.randrange(len(models))
                trace.append(('execute', kinds[mi]))
                models[mi].execute()
            else:
                mi = rnd.randrange(len(models))
                if rnd.random() < 0.3:
                    trace.append(('complete', kinds[mi]))
                    models[mi].complete()
        except Exception as e:
            problems.append(f'seed {seed} kinds {kinds} {trace[-6:]}: unexpected {type(e).__name__}: {e}')
            break
        for mi, m in enumerate(models):
            p = check_model(m, resident[mi], TYPES, unordered[mi], where=f'seed {seed} kinds {kinds} ...{trace[-6:]}')
            # order can be restored as soon as a type has no registered component any more
            for T in list(unordered[mi]):
                if m.systems.get_components(T) is None:
                    unordered[mi].discard(T)
            problems.extend(p)
        if problems:
            break
    return problems


# ---------------------------------------------------------------------------------------------------------------------
# E3  small directed experiments
# ---------------------------------------------------------------------------------------------------------------------
def exp_none_reporting():
    p = []
    for kind in WORLD_KINDS:
        m = make_model(kind)
        if listing_ids(m, CA) is not None:
            p.append(f'{kind}: fresh model lists {listing_ids(m, CA)}')
        a = Agent('x', m)  # agent without any component
        join(m, a)
        p += check_model(m, [a], TYPES, where=f'{kind} component-less agent')
        m.environment.remove_agent('x')
        a.add_component(CA(a, m))
        join(m, a)
        m.environment.remove_agent('x')
        if listing_ids(m, CA) is not None:
            p.append(f'{kind}: listing after last agent left is {listing_ids(m, CA)} (expected none)')
        try:
            m.systems[CA, True]
            p.append(f'{kind}: systems[CA, True] did not raise for an empty listing')
        except KeyError:
            pass
    return p


def exp_order_rejoin():
    p = []
    for kind in WORLD_KINDS:
        m = make_model(kind)
        ags = [Agent(i, m) for i in 'abcde']
        for a in ags:
            a.add_component(CA(a, m))
            if a.id in 'bd':
                a.add_component(CB(a, m))
            join(m, a)
        res = list(ags)
        for aid in 'cab':
            a = m.environment.get_agent(aid)
            m.environment.remove_agent(aid)
            res.remove(a)
            p += check_model(m, res, TYPES, where=f'{kind} after {aid} left')
        for aid in 'ba':
            a = [x for x in ags if x.id == aid][0]
            join(m, a)
            res.append(a)
            p += check_model(m, res, TYPES, where=f'{kind} after {aid} re-joined')
    return p


def exp_subclass_types():
    """CSub derives from CA: the listing of CA must not contain the CSub instance and vice versa (exact types)."""
    p = []
    m = make_model('grid')
    a = Agent('a', m)
    ca, cs = CA(a, m), CSub(a, m)
    a.add_component(ca)
    a.add_component(cs)
    join(m, a)
    if listing_ids(m, CA) != [id(ca)] or listing_ids(m, CSub) != [id(cs)]:
        p.append(f'CA -> {listing_ids(m, CA)}, CSub -> {listing_ids(m, CSub)}')
    if listing_ids(m, Component) is not None:
        p.append('the base class Component has a listing')
    return p


def exp_many_types_and_agents():
    p = []
    m = make_model('discrete3')
    types = [type(f'T{i}', (Component,), {}) for i in range(60)]
    rnd = random.Random(5)
    res = []
    for i in range(150):
        a = Agent(f'ag{i}', m)
        for T in rnd.sample(types, rnd.randint(0, 6)):
            a.add_component(T(a, m))
        join(m, a, rnd)
        res.append(a)
    for a in rnd.sample(res, 70):
        m.environment.remove_agent(a.id)
        res.remove(a)
    p += check_model(m, res, types, where='many')
    return p


def exp_foreign_components():
    """Component/agent created for model A joins model B: B lists it, A does not."""
    p = []
    A, B = make_model('plain'), make_model('grid')
    a = Agent('a', A)
    c = CA(a, A)
    a.add_component(c)
    join(B, a)
    p += check_model(A, [], TYPES, where='A')
    p += check_model(B, [a], TYPES, where='B')
    B.environment.remove_agent('a')
    join(A, a)
    p += check_model(A, [a], TYPES, where='A after hop')
    p += check_model(B, [], TYPES, where='B after hop')
    return p


def exp_same_ids_in_different_models():
    p = []
    ms = [make_model(k) for k in WORLD_KINDS]
    res = []
    for m in ms:
        a = Agent('same', m)
        a.add_component(CA(a, m))
        a.add_component(CFalsyBool(a, m))
        join(m, a)
        res.append(a)
    for i, m in enumerate(ms):
        p += check_model(m, [res[i]], TYPES, where=f'model {i}')
    for i, m in enumerate(ms):
        m.environment.remove_agent('same')
        for j, m2 in enumerate(ms):
            p += check_model(m2, [res[j]] if j > i else [], TYPES, where=f'after {i} left, model {j}')
    return p


def exp_failed_joins_leave_no_trace():
    p = []
    for kind in WORLD_KINDS:
        m = make_model(kind)
        a = Agent('a', m)
        a.add_component(CA(a, m))
        join(m, a)
        twin = Agent('a', m)
        twin.add_component(CA(twin, m))
        twin.add_component(CB(twin, m))
        try:
            join(m, twin)
            p.append(f'{kind}: duplicate accepted')
        except DuplicateAgentError:
            pass
        p += check_model(m, [a], TYPES, where=f'{kind} after duplicate join')
        if PositionComponent in twin.components:
            p.append(f'{kind}: rejected twin got a PositionComponent')
        if is_spatial(m) and m.environment.width > 0:
            b = Agent('b', m)
            b.add_component(CB(b, m))
            for bad in [(-1, 0, 0), (10 ** 6, 0, 0), (float('inf'), 0, 0)]:
                try:
                    m.environment.add_agent(b, *bad)
                    p.append(f'{kind}: off-map position {bad} accepted')
                    m.environment.remove_agent('b')
                except Exception as e:
                    if type(e) is not Exception:
                        p.append(f'{kind}: off-map join raised {type(e).__name__}')
                p += check_model(m, [a], TYPES, where=f'{kind} after off-map join {bad}')
            for bad in [('x', 0, 0), (None, 0, 0), ([1], 0, 0)]:
                try:
                    m.environment.add_agent(b, *bad)
                    p.append(f'{kind}: nonsense position {bad} accepted')
                    m.environment.remove_agent('b')
                except TypeError:
                    pass
                p += check_model(m, [a], TYPES, where=f'{kind} after nonsense join {bad}')
            if PositionComponent in b.components:
                p.append(f'{kind}: rejected agent got a PositionComponent')
        try:
            m.environment.remove_agent('nobody')
            p.append(f'{kind}: removing an unknown agent did not raise')
        except AgentNotFoundError:
            pass
        p += check_model(m, [a], TYPES, where=f'{kind} after failed leave')
    return p


def exp_unhashable_id():
    p = []
    for kind in ['plain', 'grid']:
        m = make_model(kind)
        a = Agent(['list', 'id'], m)
        a.add_component(CA(a, m))
        try:
            join(m, a)
            p.append('unhashable id accepted')
        except TypeError:
            pass
        p += check_model(m, [], TYPES, where=f'{kind} after unhashable id')
    return p


def exp_position_value_kinds():
    """bool / numpy scalars / negative zero / floats in discrete worlds as coordinates: join and leave still mirror."""
    import numpy as np
    p = []
    vals = [True, False, np.int64(1), np.float32(1.0), -0.0, 0.5, np.bool_(True), 2 ** 1]
    for kind in ['space', 'discrete', 'line', 'grid', 'grid_wrap', 'space0']:
        m = make_model(kind)
        res = []
        for i, v in enumerate(vals):
            a = Agent(i, m)
            a.add_component(CA(a, m))
            try:
                m.environment.add_agent(a, v, v if m.environment.height else 0, 0)
                res.append(a)
            except Exception as e:
                if type(e) is not Exception:
                    p.append(f'{kind} {v!r}: {type(e).__name__}')
            p += check_model(m, res, TYPES, where=f'{kind} pos {v!r}')
        for a in list(res):
            m.environment.remove_agent(a.id)
            res.remove(a)
            p += check_model(m, res, TYPES, where=f'{kind} leave {a.id}')
    return p


def exp_reused_objects():
    """The same component instance detached and attached again, moved to another agent between residencies, the same
    agent object re-used in several models one after the other."""
    p = []
    m1, m2 = make_model('grid'), make_model('space')
    a, b = Agent('a', m1), Agent('b', m1)
    c = CA(a, m1)
    a.add_component(c)
    join(m1, a)
    m1.environment.remove_agent('a')
    a.remove_component(CA)
    b.add_component(c)  # moved to b (belongs to one agent at a time)
    join(m1, b)
    join(m1, a)
    p += check_model(m1, [b, a], TYPES, where='moved component')
    m1.environment.remove_agent('b')
    join(m2, b)
    p += check_model(m1, [a], TYPES, where='m1')
    p += check_model(m2, [b], TYPES, where='m2')
    for _ in range(5):
        m2.environment.remove_agent('b')
        join(m2, b)
    p += check_model(m2, [b], TYPES, where='m2 after churn')
    return p


def exp_pickle_and_deepcopy():
    p = []
    for kind in WORLD_KINDS:
        m = make_model(kind, seed=3)
        res = []
        for i in range(4):
            a = Agent(f'a{i}', m)
            a.add_component(CA(a, m))
            if i % 2:
                a.add_component(CFalsyLen(a, m))
            join(m, a)
            res.append(a)
        m.environment.remove_agent('a1')
        res.pop(1)
        for name, clone in (('deepcopy', copy.deepcopy(m)), ('pickle', pickle.loads(pickle.dumps(m)))):
            cres = list(clone.environment.agents.values())
            if any(x is y for x in cres for y in res):
                p.append(f'{kind} {name}: clone shares agents')
            p += check_model(clone, cres, TYPES, where=f'{kind} {name}')
            # the clone lives its own life
            clone.environment.remove_agent('a0')
            p += check_model(clone, cres[1:], TYPES, where=f'{kind} {name} after leave in clone')
            p += check_model(m, res, TYPES, where=f'{kind} original after leave in {name} clone')
            extra = Agent('zz', clone)
            extra.add_component(CB(extra, clone))
            join(clone, extra)
            p += check_model(clone, cres[1:] + [extra], TYPES, where=f'{kind} {name} after join in clone')
            p += check_model(m, res, TYPES, where=f'{kind} original after join in {name} clone')
    return p


def exp_inside_timestep():
    """Joining / leaving from inside a running timestep, from systems of different priorities, in a nested model
    stepped by a system of the outer model, and on a completed model."""
    p = []
    for kind in WORLD_KINDS:
        outer = make_model('plain')
        inner = make_model(kind)
        res = []
        log = []

        class Spawner(System):
            def execute(self):
                a = Agent(f's{self.model.systems.timestep}', self.model)
                a.add_component(CA(a, self.model))
                a.add_component(CFalsyBool(a, self.model))
                join(self.model, a)
                res.append(a)
                log.extend(check_model(self.model, res, TYPES, where=f'{kind} in spawner'))

        class Reaper(System):
            def execute(self):
                comps = self.model.systems[CA]
                if comps is not None and len(comps) > 2:
                    victim = comps[0].agent  # snapshot before mutation
                    self.model.environment.remove_agent(victim.id)
                    res.remove(victim)
                log.extend(check_model(self.model, res, TYPES, where=f'{kind} in reaper'))

        class Nest(System):
            def execute(self):
                inner.execute()
                log.extend(check_model(outer, [], TYPES, where=f'{kind} outer'))

        inner.systems.add_system(Spawner('spawn', inner, priority=5))
        inner.systems.add_system(Reaper('reap', inner, priority=1))
        outer.systems.add_system(Nest('nest', outer))
        outer.execute(8)
        inner.complete()
        outer.execute(2)
        p += log
        p += check_model(inner, res, TYPES, where=f'{kind} after run')
        # completed model: joining and leaving still mirrored
        a = Agent('late', inner)
        a.add_component(CB(a, inner))
        join(inner, a)
        res.append(a)
        p += check_model(inner, res, TYPES, where=f'{kind} join on completed model')
        inner.environment.remove_agent('late')
        res.remove(a)
        p += check_model(inner, res, TYPES, where=f'{kind} leave on completed model')
    return p


def exp_own_position_component_before_join():
    """The agent carries a PositionComponent of its own when it joins (the world-managed type is outside the claim,
    the user types are not)."""
    p = []
    for kind in WORLD_KINDS:
        m = make_model(kind)
        a = Agent('a', m)
        ca = CA(a, m)
        a.add_component(ca)
        a.add_component(PositionComponent(a, m, 1, 1, 0))
        a.add_component(CB(a, m))
        raised = None
        try:
            join(m, a)
        except Exception as e:
            raised = e
        resident = 'a' in m.environment.agents
        p += check_model(m, [a] if resident else [], [T for T in TYPES], where=f'{kind} own PositionComponent')
        if raised is not None and resident:
            NOTES.append(f'{kind}: add_agent raised {type(raised).__name__} but the agent IS resident afterwards '
                         f'(listings of user types still mirror the environment)')
    return p


def exp_env_and_class_components_not_listed():
    p = []
    m = make_model('grid')
    m.environment.add_component(CA(m.environment, m))

    class Sheep(Agent):
        pass
    Sheep.add_class_component(CB(Sheep, m))
    s = Sheep('s', m)
    join(m, s)
    p += check_model(m, [s], TYPES, where='environment / class components')
    Sheep.remove_class_component(CB)
    return p


def exp_hash_seed():
    """The listings (as agent ids) must not depend on the hash seed."""
    code = r'''
import random, sys
from ECAgent.Core import Model, Agent, Component
from ECAgent.Environments import GridWorld
class CA(Component): pass
class CB(Component): pass
m = Model(); m.environment = GridWorld(m, 5, 5)
rnd = random.Random(1)
ids = ['a', 'bb', 'ccc', 'd', 'ee', 'f', 'g', 'hh']
for i in ids:
    a = Agent(i, m)
    for T in (CA, CB):
        if rnd.random() < .7: a.add_component(T(a, m))
    m.environment.add_agent(a, rnd.randrange(5), rnd.randrange(5))
for i in ['bb', 'f', 'a']:
    m.environment.remove_agent(i)
print([[c.agent.id for c in (m.systems[T] or [])] for T in (CA, CB)])
'''
    outs = set()
    for seed in ['0', '1', '12345', 'random']:
        env = dict(os.environ, PYTHONHASHSEED=seed)
        out = subprocess.run([sys.executable, '-c', code], env=env, capture_output=True, text=True, timeout=120)
        if out.returncode != 0:
            return [f'subprocess failed: {out.stderr[-300:]}']
        outs.add(out.stdout.strip())
    return [] if len(outs) == 1 else [f'listings differ between hash seeds: {outs}']


class SelfCheckingModel(Model):
    """Model used through batch_run (also with real multiprocessing): it churns agents and records, every timestep,
    whether the listings mirror the environment."""

    def __init__(self, kind='plain', n=5, seed=0):
        super().__init__(seed=seed)
        if kind == 'grid':
            self.environment = GridWorld(self, 4, 4)
        elif kind == 'line':
            self.environment = LineWorld(self, 5)
        self.counter = 0
        model = self

        class Churn(System):
            def execute(self):
                for _ in range(n):
                    model.counter += 1
                    a = Agent(model.counter, model)
                    if model.random.random() < 0.8:
                        a.add_component(CA(a, model))
                    if model.random.random() < 0.5:
                        a.add_component(CFalsyLen(a, model))
                    model.environment.add_agent(a)
                for a in model.environment.shuffle()[:n // 2]:
                    model.environment.remove_agent(a.id)
                if model.systems.timestep >= 5:
                    model.complete()

        class Check(Collector):
            def collect(self):
                res = list(model.environment.agents.values())
                self.records.append(check_model(model, res, [CA, CFalsyLen], where='worker'))

        self.systems.add_system(Churn('churn', self))
        self.systems.add_system(Check('check', self))


def exp_batch(processes):
    res = Batching.batch_run(SelfCheckingModel, {'kind': ['plain', 'grid', 'line'], 'n': [3, 6], 'seed': [1, 2]},
                             collectors='check', processes=processes, max_timesteps=20)
    p = []
    if len(res) != 12:
        p.append(f'expected 12 result sets, got {len(res)}')
    for records in res:
        if len(records) < 5:
            p.append(f'only {len(records)} records')
        for r in records:
            p.extend(r)
    return p


def exp_batch_multiprocessing():
    """Real multiprocessing, guarded by a timeout (run in a child interpreter that is killed when it hangs)."""
    code = ('import hunt, sys\n'
            'p = hunt.exp_batch(3)\n'
            'print("PROBLEMS", p)\n')
    try:
        out = subprocess.run([sys.executable, '-c', code], cwd=os.path.dirname(os.path.abspath(__file__)),
                             capture_output=True, text=True, timeout=180)
    except subprocess.TimeoutExpired:
        return ['batch_run(processes=3) did not finish within 180 s']
    if out.returncode != 0 or 'PROBLEMS []' not in out.stdout:
        return [f'child said: {out.stdout[-300:]} {out.stderr[-300:]}']
    return []


class DecModel(Model):
    @staticmethod
    def decode(params):
        m = DecModel(seed=params.get('seed'))
        if params.get('grid'):
            m.environment = GridWorld(m, 4, 4)
        return m


class DecAgent(Agent):
    @staticmethod
    def decode(params):
        m = params['model']
        a = DecAgent(f"d{params['agent_index']}", m)
        a.add_component(CA(a, m))
        if params['agent_index'] % 2:
            a.add_component(CFalsyBool(a, m))
        return a


def exp_decoder():
    """A model built by ECAgent.Decode.JsonDecoder from a JSON file (written with CRLF line ends)."""
    import json
    import tempfile
    from ECAgent.Decode import JsonDecoder
    p = []
    for grid in (False, True):
        spec = {'model': {'name': 'DecModel', 'module': __name__, 'params': {'seed': 1, 'grid': grid}},
                'systems': [],
                'agents': [{'name': 'DecAgent', 'module': __name__, 'number': 5, 'params': {}}]}
        with tempfile.NamedTemporaryFile('w', suffix='.json', delete=False, newline='\r\n') as f:
            f.write(json.dumps(spec, indent=1))
        try:
            m = JsonDecoder().decode(f.name)
        finally:
            os.unlink(f.name)
        res = list(m.environment.agents.values())
        if len(res) != 5:
            p.append(f'{len(res)} agents decoded')
        p += check_model(m, res, TYPES, where=f'decoded grid={grid}')
        m.environment.remove_agent('d1')
        p += check_model(m, [a for a in res if a.id != 'd1'], TYPES, where=f'decoded grid={grid} after leave')
    return p


def exp_redundant_explicit_calls():
    """Explicit register / deregister calls that are redundant (component attached before joining and registered
    again after joining; component of an agent that left deregistered again) must raise and change nothing."""
    p = []
    for kind in WORLD_KINDS:
        m = make_model(kind)
        a, b = Agent('a', m), Agent('b', m)
        ca, cb = CA(a, m), CA(b, m)
        a.add_component(ca)
        b.add_component(cb)
        join(m, a)
        join(m, b)
        try:
            m.systems.register_component(ca)
            p.append(f'{kind}: second registration accepted')
        except KeyError:
            pass
        p += check_model(m, [a, b], TYPES, where=f'{kind} after redundant register')
        m.environment.remove_agent('a')
        try:
            m.systems.deregister_component(ca)
            p.append(f'{kind}: deregistration of a component that is not listed accepted')
        except KeyError:
            pass
        p += check_model(m, [b], TYPES, where=f'{kind} after redundant deregister')
        a.remove_component(CA)  # detach after leaving
        a.add_component(CB(a, m))  # attach after leaving
        p += check_model(m, [b], TYPES, where=f'{kind} after changes on the absent agent')
        try:
            m.systems.deregister_component(CFalsyLen(a, m))  # type without any listing
            p.append(f'{kind}: deregistration for a type without listing accepted')
        except KeyError:
            pass
        join(m, a)
        p += check_model(m, [b, a], TYPES, where=f'{kind} after re-join')
    return p


# ---------------------------------------------------------------------------------------------------------------------
# Borderline / out-of-scope observations (reported, not counted)
# ---------------------------------------------------------------------------------------------------------------------
def exp_borderline_agent_in_two_models():
    """One agent resident in a plain model AND (afterwards) in a spatial model.  The spatial world attaches its
    PositionComponent to the agent while that agent is resident in the plain model; leaving the plain model then dies
    half-way: the user components are delisted, the agent stays in the environment."""
    p = []
    for kind in ['space', 'discrete', 'line', 'grid']:
        m1, m2 = make_model('plain'), make_model(kind)
        a = Agent('a', m1)
        c = CA(a, m1)
        a.add_component(c)
        m1.environment.add_agent(a)
        m2.environment.add_agent(a)
        try:
            m1.environment.remove_agent('a')
            raised = None
        except Exception as e:
            raised = e
        still = 'a' in m1.environment.agents
        got = listing_ids(m1, CA)
        exp = [id(c)] if still else None
        if got != exp:
            p.append(f'plain m1 + {kind} m2: m1.environment.remove_agent("a") raised {type(raised).__name__}; agent '
                     f'still in m1.environment: {still}; m1.systems[CA] = {got}, expected {exp}')
    return p


def exp_note_environment_replaced():
    p = []
    m = Model()
    a = Agent('a', m)
    a.add_component(CA(a, m))
    m.environment.add_agent(a)
    m.set_environment(GridWorld(m, 3, 3))  # the old environment (and its agents) is dropped
    if listing_ids(m, CA) is not None and len(m.environment.agents) == 0:
        p.append('after model.set_environment(new_world) the listing still holds the components of the agents of '
                 'the replaced environment')
    return p


def exp_note_second_environment_of_same_model():
    p = []
    m = Model()
    side = Environment(m, id='side')  # not model.environment, but registers with model.systems
    a = Agent('a', m)
    a.add_component(CA(a, m))
    side.add_agent(a)
    if listing_ids(m, CA) is not None and len(m.environment.agents) == 0:
        p.append('an Environment(model) that is not model.environment feeds model.systems: the model lists a '
                 'component although model.environment is empty')
    return p


def exp_borderline_explicit_register_of_absent_agent():
    """register_component is called for a component that was attached BEFORE joining (agent not resident)."""
    p = []
    for kind in ['plain', 'grid']:
        m = make_model(kind)
        a = Agent('a', m)
        c, d = CA(a, m), CB(a, m)
        a.add_component(c)
        a.add_component(d)
        m.systems.register_component(c)  # explicit call for an agent that is NOT resident
        if listing_ids(m, CA) is not None:
            p.append(f'{kind}: register_component accepts the component of an agent that is not in the environment: '
                     f'systems[CA] has 1 entry while the environment is empty')
        try:
            join(m, a)
        except KeyError:
            p.append(f'{kind}: ... and the following add_agent raises KeyError half-way: agent resident='
                     f'{"a" in m.environment.agents}, systems[CB]={listing_ids(m, CB)} although the resident agent '
                     f'carries a CB')
    return p


def exp_note_world_built_for_other_model():
    p = []
    m1, m2 = Model(), Model()
    m2.environment = GridWorld(m1, 3, 3)  # world constructed for m1, installed into m2
    a = Agent('a', m2)
    a.add_component(CA(a, m2))
    m2.environment.add_agent(a)
    if listing_ids(m1, CA) is not None or listing_ids(m2, CA) is None:
        p.append('a world constructed with model m1 but installed in m2 registers with m1.systems: m1 lists the '
                 'component of an agent of m2, m2 lists nothing')
    return p


def exp_note_live_list():
    p = []
    m = Model()
    a = Agent('a', m)
    a.add_component(CA(a, m))
    m.environment.add_agent(a)
    lst = m.systems[CA]
    m.environment.remove_agent('a')
    m.environment.add_agent(a)
    if lst is not m.systems[CA]:
        p.append('the listing is the live internal list; a reference kept across "all left / joined again" is stale '
                 f'(kept reference: {len(lst)} entries, fresh listing: {len(m.systems[CA])})')
    return p


def main():
    for kind in WORLD_KINDS:
        report(f'E1 exhaustive histories of length 4 ({kind})', exp_exhaustive(kind, 4))
    if '--quick' not in sys.argv:
        report('E1b exhaustive histories of length 5 (plain)', exp_exhaustive('plain', 5))
        report('E1c exhaustive histories of length 5 (grid)', exp_exhaustive('grid', 5))
    probs = []
    for seed in range(150):
        probs += exp_random(seed)
        if probs:
            break
    report('E2 random histories, 2-4 models of mixed kinds, odd ids, falsy agents/components', probs)
    probs = []
    for seed in range(1000, 1100):
        probs += exp_random(seed, in_step=True)
        if probs:
            break
    report('E2b the same, operations issued from inside running timesteps / completed models', probs)
    report('E3 "none" reporting through every access path', exp_none_reporting())
    report('E4 order after leaving / re-joining', exp_order_rejoin())
    report('E5 component type hierarchy (exact types)', exp_subclass_types())
    report('E6 60 types x 150 agents', exp_many_types_and_agents())
    report('E7 agent / component created for another model', exp_foreign_components())
    report('E8 same agent id in nine models', exp_same_ids_in_different_models())
    report('E9 failed joins / leaves leave no trace', exp_failed_joins_leave_no_trace())
    report('E10 unhashable agent id', exp_unhashable_id())
    report('E11 bool / numpy / -0.0 / fractional coordinates', exp_position_value_kinds())
    report('E12 re-used component and agent objects', exp_reused_objects())
    report('E13 pickle / deepcopy of a populated model', exp_pickle_and_deepcopy())
    report('E14 joins / leaves inside timesteps, nested model, completed model', exp_inside_timestep())
    report('E15 agent that already carries a PositionComponent', exp_own_position_component_before_join())
    report('E16 environment components and class components are not listed', exp_env_and_class_components_not_listed())
    report('E17 hash seed independence', exp_hash_seed())
    report('E18 batch_run, one process', exp_batch(1))
    report('E19 batch_run, three processes (timeout 180 s)', exp_batch_multiprocessing())
    report('E21 model built by JsonDecoder (CRLF file)', exp_decoder())
    report('E20 redundant explicit register / deregister calls, changes on an absent agent',
           exp_redundant_explicit_calls())

    report('B1 one agent resident in a plain model and then in a spatial model', exp_borderline_agent_in_two_models(),
           'BORDERLINE')
    report('B2 explicit register_component for a component attached before joining',
           exp_borderline_explicit_register_of_absent_agent(), 'BORDERLINE')
    report('N1 environment replaced while populated', exp_note_environment_replaced(), 'NOTE')
    report('N2 second environment of the same model', exp_note_second_environment_of_same_model(), 'NOTE')
    report('N3 world constructed for another model', exp_note_world_built_for_other_model(), 'NOTE')
    report('N4 listing is a live list', exp_note_live_list(), 'NOTE')

    report('N5 (from E15) join of an agent that already carries a PositionComponent', NOTES, 'NOTE')

    genuine = [r for r in RESULTS if r[1] == 'VIOLATION']
    borderline = [r for r in RESULTS if r[1] == 'BORDERLINE']
    print()
    print(f'genuine violations inside the stated scope: {len(genuine)};  borderline (not counted): {len(borderline)}')
    if '--strict' in sys.argv:  # count the borderline findings as violations, too
        return 1 if genuine or borderline else 0
    return 1 if genuine else 0


if __name__ == '__main__':
    sys.exit(main())
