"""Second-pass bug hunt for property C03:

  "Component listings mirror exactly the components of agents in the model"

Run with:  cd /tmp/wt-C03-i && PYTHONPATH=/tmp/wt-C03-i /venv/bin/python hunt.py

Every experiment prints OK, VIOLATION (a genuine, in-scope violation - makes the script exit 1) or NOTE
(behaviour that is worth knowing but is outside the stated scope / already decided / merely unspecified - never counted).
Only the public API of the package is used.
"""
import copy
import pickle
import random
import sys
import traceback
import warnings

warnings.simplefilter('ignore')

import ECAgent
from ECAgent.Core import (Agent, Component, DuplicateAgentError, AgentNotFoundError, Environment, Model, System)
from ECAgent.Environments import (DiscreteWorld, GridWorld, LineWorld, PositionComponent, SpaceWorld)

VIOLATIONS = []
NOTES = []


def report(name, problems, note=False):
    """problems: list of strings (empty -> OK)."""
    if not problems:
        print(f'[OK]        {name}')
    elif note:
        print(f'[NOTE]      {name}')
        for p in problems:
            print(f'              - {p}')
        NOTES.append(name)
    else:
        print(f'[VIOLATION] {name}')
        for p in problems:
            print(f'              - {p}')
        VIOLATIONS.append(name)


def experiment(name, note=False):
    def deco(fn):
        try:
            problems = fn() or []
        except Exception:  # an unexpected crash of an experiment is itself reported
            problems = ['experiment crashed:\n' + traceback.format_exc()]
        report(name, problems, note=note)
        return fn
    return deco


# --------------------------------------------------------------------------------------------------------------------
# User-defined component types (identity equality, one instance per agent)
# --------------------------------------------------------------------------------------------------------------------
class C1(Component):
    pass


class C2(Component):
    __slots__ = ['v']

    def __init__(self, agent, model, v=0):
        super().__init__(agent, model)
        self.v = v


class C1Sub(C1):  # a subclass of a user component type is a component type of its own
    pass


class Falsy(Component):  # a falsy component (has __len__ == 0), still identity equality
    def __len__(self):
        return 0


class MyPos(PositionComponent):  # user type derived from the package's PositionComponent
    pass


TYPES = [C1, C2, C1Sub, Falsy, MyPos]


class Sheep(Agent):
    pass


class Wolf(Agent):
    __slots__ = ['energy']

    def __init__(self, id, model, tag=None):
        super().__init__(id, model, tag)
        self.energy = 0


class CountingSystem(System):
    """records (len(listing), listing mirrors the environment?) every timestep; removes agent 0 at t == 1"""
    def __init__(self, model):
        super().__init__('cnt', model)
        self.records = []

    def execute(self):
        if self.model.timestep == 1:
            self.model.environment.remove_agent(0)
        lst = self.model.systems[C1] or []
        spec = [a[C1] for a in self.model.environment if C1 in a]
        self.records.append((len(lst), len(lst) == len(spec) and all(x is y for x, y in zip(lst, spec))))


class BatchModel(Model):
    def __init__(self, n):
        super().__init__()
        self.environment = GridWorld(self, 3, 3)
        for i in range(n):
            a = Agent(i, self)
            a.add_component(C1(a, self))
            self.environment.add_agent(a, i % 3, 0)
        self.systems.add_system(CountingSystem(self))


WORLD_KINDS = {
    'default': lambda m: None,
    'plain': lambda m: Environment(m),
    'space': lambda m: SpaceWorld(m, 5, 5, 5),
    'space-wrap-2d': lambda m: SpaceWorld(m, 4.5, 3.5, 0, wrap_env=True),
    'discrete': lambda m: DiscreteWorld(m, 3, 3, 3),
    'line': lambda m: LineWorld(m, 4),
    'grid': lambda m: GridWorld(m, 3, 3),
}


def make_model(kind):
    m = Model()
    w = WORLD_KINDS[kind](m)
    if w is not None:
        m.environment = w
    return m


def join(env, agent, rnd=None):
    """add an agent at a legal position of whatever world this is"""
    if isinstance(env, SpaceWorld):
        rnd = rnd or random
        x = rnd.randrange(0, max(int(env.width), 1))
        y = rnd.randrange(0, max(int(env.height), 1))
        z = rnd.randrange(0, max(int(env.depth), 1))
        env.add_agent(agent, x, y, z)
    else:
        env.add_agent(agent)


def listing_problems(model, expected, types, where=''):
    """Compare every way the model exposes its listings with the expectation {type: [components...]}."""
    out = []
    sm = model.systems
    for t in types:
        exp = expected.get(t, [])
        got = sm.get_components(t)
        got2 = sm[t]
        if not exp:
            if got is not None or got2 is not None:
                out.append(f'{where}{t.__name__}: expected "none" (None) but got {got!r}')
            try:
                sm.get_components(t, throw_error=True)
                out.append(f'{where}{t.__name__}: get_components(throw_error=True) did not raise although none exist')
            except KeyError:
                pass
            try:
                sm[t, True]
                out.append(f'{where}{t.__name__}: systems[T, True] did not raise although none exist')
            except KeyError:
                pass
            if t in sm.component_pools:
                out.append(f'{where}{t.__name__}: empty pool left behind in component_pools')
        else:
            if got is None or len(got) != len(exp) or any(a is not b for a, b in zip(got, exp)):
                out.append(f'{where}{t.__name__}: listing {_fmt(got)} != expected {_fmt(exp)}')
            if got2 is not got:
                out.append(f'{where}{t.__name__}: systems[T] and get_components(T) disagree')
            if sm.get_components(t, throw_error=True) is not got or sm[t, True] is not got:
                out.append(f'{where}{t.__name__}: throw_error variants disagree')
    extra = [k for k in sm.component_pools if k not in types and k is not PositionComponent]
    if extra:
        out.append(f'{where}unexpected pools {extra}')
    return out


def _fmt(lst):
    if lst is None:
        return 'None'
    return '[' + ', '.join(f'{getattr(c.agent, "id", "?")}.{type(c).__name__}' for c in lst) + ']'


def env_derived(env, types):
    """The specification itself: components of resident agents, in joining (== iteration) order."""
    exp = {}
    for a in env:
        for t in types:
            if t in a.components:
                exp.setdefault(t, []).append(a.components[t])
    return exp


# --------------------------------------------------------------------------------------------------------------------
# 1/2. Randomised differential test against the specification (all worlds, several models, agents migrating between
#      models, colliding ids, attach/detach before joining and after leaving; second campaign adds attach/detach while
#      resident WITH the explicit register / deregister calls).
# --------------------------------------------------------------------------------------------------------------------
def campaign(seed, resident_edits, steps=400):
    rnd = random.Random(seed)
    kinds = list(WORLD_KINDS)
    rnd.shuffle(kinds)
    models = [make_model(k) for k in kinds[:3]]
    knames = kinds[:3]
    ids = ['a', 'b', 'c', 'a', 0, '', 'b', None]  # colliding and falsy identifiers
    classes = [Agent, Sheep, Wolf]
    agents = [classes[i % 3](ids[i], models[i % 3]) for i in range(len(ids))]
    where = {}  # agent index -> model index
    expected = [dict() for _ in models]  # per model {type: [components]} (only needed when resident edits are used)
    manual = [set() for _ in models]  # types whose order was touched by a manual registration
    log = []
    types = [t for t in TYPES]

    def check(tag):
        probs = []
        for mi, m in enumerate(models):
            spec = env_derived(m.environment, types)
            exp = expected[mi]
            # the shadow must agree with the specification as a set, and as a sequence for untouched types
            for t in types:
                s, e = spec.get(t, []), exp.get(t, [])
                if set(map(id, s)) != set(map(id, e)):
                    probs.append(f'INTERNAL shadow/spec mismatch for {t.__name__}')
                if t not in manual[mi] and [id(c) for c in s] != [id(c) for c in e]:
                    probs.append(f'INTERNAL shadow/spec order mismatch for {t.__name__}')
            probs += listing_problems(m, exp, types, where=f'[seed {seed}, model {mi} ({knames[mi]}), after {tag}] ')
        return probs

    for step in range(steps):
        ai = rnd.randrange(len(agents))
        a = agents[ai]
        op = rnd.choice(['join', 'join', 'leave', 'attach', 'detach', 'bad-remove', 'dup-join'])
        tag = f'step {step}: {op} agent#{ai}(id={a.id!r})'
        if op == 'join' and ai not in where:
            mi = rnd.randrange(len(models))
            env = models[mi].environment
            taken = a.id in [x.id for x in env]
            try:
                join(env, a, rnd)
                if taken:
                    return [f'{tag}: duplicate id was accepted'] + log[-5:]
                where[ai] = mi
                for t, c in a.components.items():
                    if t is not PositionComponent:
                        expected[mi].setdefault(t, []).append(c)
            except DuplicateAgentError:
                if not taken:
                    return [f'{tag}: spurious DuplicateAgentError']
        elif op == 'dup-join' and ai in where:  # re-adding a resident agent must fail and change nothing
            try:
                join(models[where[ai]].environment, a, rnd)
                return [f'{tag}: resident agent was accepted twice']
            except DuplicateAgentError:
                pass
        elif op == 'leave' and ai in where:
            mi = where.pop(ai)
            models[mi].environment.remove_agent(a.id)
            for t, c in a.components.items():
                expected[mi][t].remove(c)
            if PositionComponent in a.components:
                return [f'{tag}: PositionComponent survived leaving a world']
        elif op == 'bad-remove':
            mi = rnd.randrange(len(models))
            env = models[mi].environment
            if 'zzz' not in [x.id for x in env]:
                try:
                    env.remove_agent('zzz')
                    return [f'{tag}: removing unknown id did not raise']
                except AgentNotFoundError:
                    pass
        elif op == 'attach':
            t = rnd.choice(types)
            if t in a.components:
                continue
            c = t(a, a.model)
            if ai not in where:
                a.add_component(c)
            elif resident_edits:
                mi = where[ai]
                if rnd.random() < 0.5:
                    a.add_component(c)
                    models[mi].systems.register_component(c)
                else:
                    models[mi].systems.register_component(c)
                    a.add_component(c)
                expected[mi].setdefault(t, []).append(c)  # known: manual registration appends at the end
                manual[mi].add(t)
            tag += f' {t.__name__}'
        elif op == 'detach':
            present = [t for t in a.components if t is not PositionComponent]
            if not present:
                continue
            t = rnd.choice(present)
            c = a.components[t]
            if ai not in where:
                a.remove_component(t)
            elif resident_edits:
                mi = where[ai]
                if rnd.random() < 0.5:
                    a.remove_component(t)
                    models[mi].systems.deregister_component(c)
                else:
                    models[mi].systems.deregister_component(c)
                    a.remove_component(t)
                expected[mi][t].remove(c)
            tag += f' {t.__name__}'
        else:
            continue
        log.append(tag)
        probs = check(tag)
        if probs:
            return probs + ['history tail: ' + ' | '.join(log[-6:])]
    return []


@experiment('01 random histories, all worlds x 3 models, attach/detach only while not resident (60 seeds)')
def _():
    for seed in range(60):
        p = campaign(seed, resident_edits=False)
        if p:
            return p


@experiment('02 random histories incl. attach/detach while resident WITH explicit register/deregister (60 seeds)')
def _():
    for seed in range(1000, 1060):
        p = campaign(seed, resident_edits=True)
        if p:
            return p


# --------------------------------------------------------------------------------------------------------------------
# Hand-written angles
# --------------------------------------------------------------------------------------------------------------------
@experiment('03 "none" is reported before anything joined, after the last holder left, and for never-used types')
def _():
    probs = []
    for kind in WORLD_KINDS:
        m = make_model(kind)
        probs += listing_problems(m, {}, TYPES, f'[{kind} fresh] ')
        a = Agent('a', m)
        a.add_component(C1(a, m))
        join(m.environment, a)
        probs += listing_problems(m, {C1: [a[C1]]}, TYPES, f'[{kind} joined] ')
        m.environment.remove_agent('a')
        probs += listing_problems(m, {}, TYPES, f'[{kind} left] ')
        if m.systems.component_pools != {}:
            probs.append(f'[{kind}] component_pools not empty after everybody left: {m.systems.component_pools}')
    return probs


@experiment('04 re-joining puts the agent at the END of the joining order (every world)')
def _():
    probs = []
    for kind in WORLD_KINDS:
        m = make_model(kind)
        ags = [Agent(i, m) for i in range(4)]
        for a in ags:
            a.add_component(C1(a, m))
            join(m.environment, a)
        m.environment.remove_agent(1)
        join(m.environment, ags[1])
        m.environment.remove_agent(0)
        join(m.environment, ags[0])
        exp = [ags[2][C1], ags[3][C1], ags[1][C1], ags[0][C1]]
        probs += listing_problems(m, {C1: exp}, TYPES, f'[{kind}] ')
        probs += listing_problems(m, env_derived(m.environment, TYPES), TYPES, f'[{kind} spec] ')
    return probs


@experiment('05 agent migrating between models / worlds; models never see each other\'s components')
def _():
    probs = []
    kinds = list(WORLD_KINDS)
    ms = [make_model(k) for k in kinds]
    a = Sheep('x', ms[0])
    a.add_component(C1(a, ms[0]))
    a.add_component(C2(a, ms[0], 5))
    others = []
    for i, m in enumerate(ms):  # a permanent resident with the same id-space in every model
        o = Wolf('x' if i % 2 else 'y', m)
        o.add_component(C1(o, m))
        others.append(o)
    for i, m in enumerate(ms):
        if i % 2 == 0:
            join(m.environment, others[i])
    for hop in range(3 * len(ms)):
        i = hop % len(ms)
        m = ms[i]
        if i % 2 == 1:  # id 'x' taken? no - others[i] not resident in odd models
            pass
        join(m.environment, a)
        for j, mm in enumerate(ms):
            exp = {}
            if j % 2 == 0:
                exp[C1] = [others[j][C1]]
            if j == i:
                exp.setdefault(C1, []).append(a[C1])
                if C2 in a:
                    exp[C2] = [a[C2]]
            probs += listing_problems(mm, exp, TYPES, f'[hop {hop}: agent in model {i} ({kinds[i]}), looking at {j}] ')
        m.environment.remove_agent('x')
        if hop == 4:
            a.remove_component(C2)  # detached after leaving
        if hop == 9:
            a.add_component(C2(a, None, 7))  # attached after leaving
        if hop in range(5, 9):
            probs += [] if C2 not in a else ['C2 should be detached']
    return probs


@experiment('06 failing operations register / deregister nothing (duplicate id, out-of-bounds on each axis and side, '
            'unknown id)')
def _():
    probs = []
    for kind in WORLD_KINDS:
        m = make_model(kind)
        a = Agent('a', m)
        a.add_component(C1(a, m))
        join(m.environment, a)
        twin = Agent('a', m)
        twin.add_component(C1(twin, m))
        twin.add_component(C2(twin, m))
        try:
            join(m.environment, twin)
            probs.append(f'[{kind}] duplicate accepted')
        except DuplicateAgentError:
            pass
        b = Agent('b', m)
        b.add_component(C1(b, m))
        env = m.environment
        if isinstance(env, SpaceWorld):
            for pos in [(-1, 0, 0), (0, -1, 0), (0, 0, -1), (99, 0, 0), (0, 99, 0), (0, 0, 99), (-0.5, 0, 0)]:
                axis_extent = [env.width, env.height, env.depth][[i for i, v in enumerate(pos) if v != 0][0]]
                if axis_extent == 0:
                    continue  # zero-extent axes are unchecked by design / unspecified
                try:
                    env.add_agent(b, *pos)
                    probs.append(f'[{kind}] out-of-bounds placement {pos} accepted')
                    env.remove_agent('b')
                except Exception as e:
                    if type(e) is not Exception:
                        probs.append(f'[{kind}] placement {pos}: unexpected {type(e).__name__}: {e}')
                if PositionComponent in b.components or len(b.components) != 1:
                    probs.append(f'[{kind}] rejected agent was modified: {b.components}')
        try:
            env.remove_agent('nobody')
            probs.append(f'[{kind}] unknown id removed')
        except AgentNotFoundError:
            pass
        probs += listing_problems(m, {C1: [a[C1]]}, TYPES, f'[{kind}] ')
    return probs


@experiment('07 subclass of a component type is a type of its own; user subclass of PositionComponent is listed in '
            'worlds; a user-attached PositionComponent is an ordinary component in the plain environment')
def _():
    probs = []
    m = Model()
    a, b = Agent('a', m), Agent('b', m)
    a.add_component(C1(a, m)); a.add_component(C1Sub(a, m)); a.add_component(PositionComponent(a, m, 1, 2, 3))
    b.add_component(C1Sub(b, m))
    m.environment.add_agent(a); m.environment.add_agent(b)
    exp = {C1: [a[C1]], C1Sub: [a[C1Sub], b[C1Sub]], PositionComponent: [a[PositionComponent]]}
    probs += listing_problems(m, exp, TYPES + [PositionComponent], '[plain] ')
    m.environment.remove_agent('a')
    probs += listing_problems(m, {C1Sub: [b[C1Sub]]}, TYPES + [PositionComponent], '[plain after leave] ')
    g = make_model('grid')
    c = Agent('c', g)
    c.add_component(MyPos(c, g, 9, 9, 9))
    g.environment.add_agent(c, 1, 2)
    probs += listing_problems(g, {MyPos: [c[MyPos]]}, TYPES, '[grid MyPos] ')
    if c[PositionComponent].xy() != (1, 2) or c[MyPos].xy() != (9, 9):
        probs.append('managed position and user MyPos got mixed up')
    g.environment.remove_agent('c')
    probs += listing_problems(g, {}, TYPES, '[grid MyPos left] ')
    if MyPos not in c or PositionComponent in c:
        probs.append('leaving the world removed the wrong component')
    return probs


@experiment('08 falsy things: agents without components (len 0), falsy ids (0, "", None, False), empty environment, '
            'completed (falsy) model, falsy component')
def _():
    probs = []
    for kind in WORLD_KINDS:
        m = make_model(kind)
        m.complete()
        ags = []
        for i in [0, '', None, 0.5, (), 'z']:
            a = Agent(i, m)
            ags.append(a)
            join(m.environment, a)  # no components yet: bool(agent) is False
        for a in ags:
            m.environment.remove_agent(a.id)
        for a in ags:
            a.add_component(Falsy(a, m))
            a.add_component(C2(a, m, 0))
            join(m.environment, a)
        probs += listing_problems(m, {Falsy: [a[Falsy] for a in ags], C2: [a[C2] for a in ags]}, TYPES, f'[{kind}] ')
        for a in ags[::2]:
            m.environment.remove_agent(a.id)
        rest = ags[1::2]
        probs += listing_problems(m, {Falsy: [a[Falsy] for a in rest], C2: [a[C2] for a in rest]}, TYPES, f'[{kind}] ')
        for a in rest:
            m.environment.remove_agent(a.id)
        probs += listing_problems(m, {}, TYPES, f'[{kind} end] ')
    return probs


@experiment('09 joining / leaving from inside a running timestep (systems of different priority observe the listings)')
def _():
    probs = []
    for kind in WORLD_KINDS:
        m = make_model(kind)
        born = []

        class Reaper(System):
            def execute(self):
                env = self.model.environment
                for c in list(self.model.systems[C2] or []):
                    if c.v <= 0:
                        env.remove_agent(c.agent.id)
                    else:
                        c.v -= 1

        class Breeder(System):
            def execute(self):
                n = self.model.timestep
                a = Agent(f'n{n}', self.model)
                a.add_component(C2(a, self.model, n % 3))
                a.add_component(C1(a, self.model))
                join(self.model.environment, a)
                born.append(a)

        class Observer(System):
            def execute(self):
                nonlocal probs
                probs += listing_problems(self.model, env_derived(self.model.environment, TYPES), TYPES,
                                          f'[{kind} t={self.model.timestep} {self.id}] ')

        m.systems.add_system(Breeder('breed', m, priority=5))
        m.systems.add_system(Observer('obs1', m, priority=4))
        m.systems.add_system(Reaper('reap', m, priority=3))
        m.systems.add_system(Observer('obs2', m, priority=2))
        m.execute(12)
        if len(m.environment) in (0, 12):
            probs.append(f'[{kind}] scenario degenerate')
        if probs:
            break
    return probs


@experiment('10 deepcopy / pickle round trip of a populated model: the copy mirrors its own agents, original untouched')
def _():
    probs = []
    for kind in WORLD_KINDS:
        m = make_model(kind)
        ags = [Agent(i, m) for i in range(3)]
        for a in ags:
            a.add_component(C1(a, m))
            join(m.environment, a)
        for how, clone in (('deepcopy', copy.deepcopy(m)), ('pickle', pickle.loads(pickle.dumps(m)))):
            probs += listing_problems(clone, env_derived(clone.environment, TYPES), TYPES, f'[{kind} {how}] ')
            if any(c in m.systems[C1] for c in clone.systems[C1]):
                probs.append(f'[{kind} {how}] clone shares components with the original')
            clone.environment.remove_agent(1)
            x = Agent('new', clone)
            x.add_component(C1(x, clone))
            join(clone.environment, x)
            probs += listing_problems(clone, env_derived(clone.environment, TYPES), TYPES, f'[{kind} {how} edited] ')
            probs += listing_problems(m, {C1: [a[C1] for a in ags]}, TYPES, f'[{kind} original after {how}] ')
    return probs


@experiment('11 deprecated spellings (addAgent / removeAgent / getComponents) keep the listings right')
def _():
    probs = []
    m = Model()
    a = Agent('a', m)
    a.add_component(C1(a, m))
    m.environment.addAgent(a)
    if m.systems.getComponents(C1) != [a[C1]]:
        probs.append('getComponents wrong')
    m.environment.removeAgent('a')
    probs += listing_problems(m, {}, TYPES)
    return probs


@experiment('12 attach / detach / replace the instance of a type before joining and after leaving, many rounds')
def _():
    probs = []
    for kind in WORLD_KINDS:
        m = make_model(kind)
        a, b = Agent('a', m), Agent('b', m)
        b.add_component(C1(b, m))
        join(m.environment, b)
        old = []
        for r in range(6):
            c = C1(a, m)
            a.add_component(c)
            if r % 2:
                a.add_component(C2(a, m, r))
            join(m.environment, a)
            exp = {C1: [b[C1], c]}
            if r % 2:
                exp[C2] = [a[C2]]
            probs += listing_problems(m, exp, TYPES, f'[{kind} round {r}] ')
            m.environment.remove_agent('a')
            a.remove_component(C1)
            if r % 2:
                a.remove_component(C2)
            old.append(c)
            probs += listing_problems(m, {C1: [b[C1]]}, TYPES, f'[{kind} round {r} left] ')
    return probs


@experiment('13 colliding identifiers (1 / True / 1.0, "a" twice) across agents carrying components')
def _():
    probs = []
    for kind in WORLD_KINDS:
        m = make_model(kind)
        group = [Agent(1, m), Agent(True, m), Agent(1.0, m)]
        for a in group:
            a.add_component(C1(a, m))
        join(m.environment, group[0])
        for a in group[1:]:
            try:
                join(m.environment, a)
                probs.append(f'[{kind}] id {a.id!r} accepted next to 1')
            except DuplicateAgentError:
                pass
        probs += listing_problems(m, {C1: [group[0][C1]]}, TYPES, f'[{kind}] ')
        m.environment.remove_agent(True)  # removes agent 1 (equal key)
        probs += listing_problems(m, {}, TYPES, f'[{kind} removed] ')
        join(m.environment, group[2])
        probs += listing_problems(m, {C1: [group[2][C1]]}, TYPES, f'[{kind} 1.0] ')
    return probs


@experiment('14 many models of the same world kind alive at once, identical ids and component types')
def _():
    probs = []
    ms = [make_model('grid') for _ in range(5)]
    ags = []
    for i, m in enumerate(ms):
        row = []
        for j in range(i + 1):
            a = Agent(j, m)
            a.add_component(C1(a, m))
            m.environment.add_agent(a, j % 3, 0)
            row.append(a)
        ags.append(row)
    for i, m in enumerate(ms):
        probs += listing_problems(m, {C1: [a[C1] for a in ags[i]]}, TYPES, f'[model {i}] ')
    ms[4].environment.remove_agent(0)
    for i, m in enumerate(ms[:4]):
        probs += listing_problems(m, {C1: [a[C1] for a in ags[i]]}, TYPES, f'[model {i} after foreign removal] ')
    return probs


@experiment('15 real multiprocessing (batch_run, processes=2): each worker model lists exactly its own components')
def _():
    import multiprocessing as mp
    q = mp.get_context('fork').Queue()

    def work(q):
        try:
            import ECAgent.Batching as B
            res = B.batch_run(BatchModel, {'n': [1, 2, 3, 4]}, collectors='cnt', processes=2, max_timesteps=3)
            q.put(('ok', sorted(res)))
        except Exception:
            q.put(('err', traceback.format_exc()))

    p = mp.get_context('fork').Process(target=work, args=(q,))
    p.start()
    p.join(60)
    if p.is_alive():
        p.terminate()
        return ['batch_run with processes=2 timed out (60s)']
    try:
        status, payload = q.get(timeout=5)
    except Exception:
        return ['no result from worker']
    if status == 'err':
        return ['batch_run failed: ' + payload]
    want = sorted([[(n, True), (n - 1, True), (n - 1, True)] for n in [1, 2, 3, 4]])
    if payload != want:
        return [f'batch workers reported {payload}, expected {want}']
    return []


# --------------------------------------------------------------------------------------------------------------------
# Out-of-scope / already-decided / unspecified behaviour - documented, never counted
# --------------------------------------------------------------------------------------------------------------------
@experiment('N1 (not counted) environment replaced while agents are resident: old agents stay listed', note=True)
def _():
    m = Model()
    a = Agent('a', m)
    a.add_component(C1(a, m))
    m.environment.add_agent(a)
    m.environment = GridWorld(m, 3, 3)
    if m.systems[C1] is not None:
        return [f'model.environment is now an empty GridWorld (len {len(m.environment)}) but model.systems[C1] = '
                f'{_fmt(m.systems[C1])}; outside the stated scope (no history in the scope replaces the environment)']


@experiment('N2 (not counted) a second Environment(model) next to model.environment feeds the same listings', note=True)
def _():
    m = Model()
    side = Environment(m, id='SIDE')
    a = Agent('a', m)
    a.add_component(C1(a, m))
    side.add_agent(a)
    if m.systems[C1] is not None:
        return [f'agent only resident in a side environment, yet model.systems[C1] = {_fmt(m.systems[C1])}; '
                f'unspecified (the statement only speaks about "the model\'s environment")']


@experiment('N3 (not counted) world built for model A but installed in model B registers with A', note=True)
def _():
    a_m, b_m = Model(), Model()
    b_m.environment = GridWorld(a_m, 3, 3)  # user passed the wrong model and never called set_model
    x = Agent('x', b_m)
    x.add_component(C1(x, b_m))
    b_m.environment.add_agent(x)
    if a_m.systems[C1] is not None or b_m.systems[C1] is None:
        return [f'A sees {_fmt(a_m.systems[C1])}, B sees {_fmt(b_m.systems[C1])}; mis-wired environment '
                f'(environment.model is not the owning model) - configuration outside the stated scope']


@experiment('N4 (not counted) Environment.set_model() on a populated environment does not migrate registrations',
            note=True)
def _():
    a_m, b_m = Model(), Model()
    env = a_m.environment
    x = Agent('x', a_m)
    x.add_component(C1(x, a_m))
    env.add_agent(x)
    env.set_model(b_m)
    b_m.set_environment(env)
    out = []
    if a_m.systems[C1] is not None or b_m.systems[C1] is None:
        out.append(f'after moving the populated environment from A to B: A lists {_fmt(a_m.systems[C1])}, '
                   f'B lists {_fmt(b_m.systems[C1])}')
    try:
        env.remove_agent('x')
    except KeyError as e:
        out.append(f'remove_agent then raises KeyError ({str(e)[:60]}...) and the agent stays resident: '
                   f'{"x" in env.agents}')
    return [o + ' - outside the stated scope (environment re-parenting)' for o in out]


@experiment('N5 (not counted) manually registered managed PositionComponent outlives the agent', note=True)
def _():
    m = make_model('grid')
    a = Agent('a', m)
    m.environment.add_agent(a, 1, 1)
    m.systems.register_component(a[PositionComponent])
    m.environment.remove_agent('a')
    if m.systems[PositionComponent] is not None:
        return ['after remove_agent the PositionComponent of the departed agent is still listed '
                '(SpaceWorld.remove_agent detaches it before the base class deregisters the remaining components); '
                'the world-managed position component is explicitly not part of the claim']


@experiment('N6 (not counted) the listing handed out is the live internal list; a held reference goes stale once the '
            'type disappears and re-appears', note=True)
def _():
    m = Model()
    a = Agent('a', m)
    a.add_component(C1(a, m))
    m.environment.add_agent(a)
    held = m.systems[C1]
    m.environment.remove_agent('a')
    m.environment.add_agent(a)
    if held is not m.systems[C1]:
        return [f'held listing is {held!r} while a fresh query gives {_fmt(m.systems[C1])}; the property speaks about '
                f'the listing at query time, so this is not counted']


@experiment('N7 (not counted) nested environment used as an agent: its residents are listed by the outer model',
            note=True)
def _():
    m = Model()
    inner = Environment(m, id='inner')
    inner.add_component(C2(inner, m, 1))
    m.environment.add_agent(inner)
    a = Agent('a', m)
    a.add_component(C1(a, m))
    inner.add_agent(a)
    out = []
    if m.systems[C2] != [inner[C2]]:
        out.append('component of the nested environment itself is NOT listed (would be in scope!)')
        report('nested environment as an agent keeps its own components listed', out)
        return []
    if m.systems[C1] is not None:
        return ['agents of an environment nested as an agent are listed although they are not (directly) in '
                'model.environment - unspecified']


print()
print(f'ECAgent under test: {ECAgent.__file__}')
print(f'genuine in-scope violations: {len(VIOLATIONS)}   notes (not counted): {len(NOTES)}')
sys.exit(1 if VIOLATIONS else 0)
