"""Bug hunt for the property
  "Collectors record faithfully: nothing invented, altered, lost or duplicated".

Run:  cd /tmp/wt-C17-h && PYTHONPATH=/tmp/wt-C17-h /venv/bin/python hunt.py

Every experiment prints one of
  OK         - behaviour matches the property
  VIOLATION  - genuine violation inside the stated scope (counted, exit code 1)
  NOTE       - deviation that is outside the stated scope / documented / unspecified (NOT counted)
Only the public API of ECAgent is used.
"""
import copy
import gc
import os
import random
import subprocess
import sys
import tempfile

from ECAgent.Core import Model, Agent, System, Environment, Component
from ECAgent.Collectors import AgentCollector, FileCollector, Collector
from ECAgent.Environments import GridWorld, LineWorld, SpaceWorld
import ECAgent.Batching as Batching

HERE = os.path.dirname(os.path.abspath(__file__))
RESULTS = []  # (name, status, message)


def experiment(fn):
    fn._is_experiment = True
    return fn


def report(name, status, msg=''):
    RESULTS.append((name, status, msg))
    print(f'[{status}] {name}' + (f'\n      {msg}' if msg else ''))


class VAgent(Agent):
    """Agent carrying the value the per-agent function returns for it."""
    __slots__ = ['v']

    def __init__(self, id, model, v=None):
        super().__init__(id, model)
        self.v = v


class PlanSystem(System):
    """Executes callables planned per timestep (population changes *during* a timestep)."""

    def __init__(self, id, model, plan, priority=0):
        super().__init__(id, model, priority=priority)
        self.plan = plan

    def execute(self):
        for op in self.plan.get(self.model.systems.timestep, []):
            op(self.model)


def same(a, b):
    """Strict 'same value': same type, and identical or equal (nan-safe, sign of zero checked)."""
    if a is b:
        return True
    if type(a) is not type(b):
        return False
    if isinstance(a, float):
        return repr(a) == repr(b)
    return a == b


# --------------------------------------------------------------------------------------------------------------------
# 1. randomized reference model for the AgentCollector
# --------------------------------------------------------------------------------------------------------------------
VALUES = [None, None, 0, '', [], {}, (), 0.0, -0.0, False, True, 1, 'x', [1], 10 ** 30, float('nan'), b'', frozenset()]


def _agent_collector_run(seed, T=12):
    rnd = random.Random(seed)
    m = Model()
    start = rnd.choice([0, 0, 1, 3, -2])
    end = rnd.choice([sys.maxsize, 5, 8, 2, 0])
    freq = rnd.choice([1, 1, 2, 3, -2, 5])
    incl = rnd.random() < .5
    usecomp = rnd.random() < .5
    comp_plan = {t: rnd.choice([0, 1, 2, 3]) for t in range(T)}

    def comp(agents):
        k = comp_plan[m.systems.timestep]
        return [None, {}, {'_n': len(agents)}, {'_n': 0, '_z': None}][k]

    col = AgentCollector(m, lambda a: a.v, compositeFunc=comp if usecomp else None, includeTimstep=incl,
                         start=start, end=end, frequency=freq)
    pop = {}
    counter = [0]

    def op_add(model):
        i = 'a%d' % counter[0]
        counter[0] += 1
        v = rnd.choice(VALUES)
        model.environment.add_agent(VAgent(i, model, v))
        pop[i] = v

    def op_rem(model):
        if pop:
            i = rnd.choice(sorted(pop))
            model.environment.remove_agent(i)
            del pop[i]

    def op_readd(model):  # leave and join again under the same id (moves to the end of the order)
        if pop:
            i = rnd.choice(sorted(pop))
            model.environment.remove_agent(i)
            v = pop.pop(i)
            model.environment.add_agent(VAgent(i, model, v))
            pop[i] = v

    def op_chg(model):
        if pop:
            i = rnd.choice(sorted(pop))
            v = rnd.choice(VALUES)
            model.environment.agents[i].v = v
            pop[i] = v

    ops = [op_add, op_add, op_rem, op_chg, op_readd]
    plan = {t: [rnd.choice(ops) for _ in range(rnd.randint(0, 3))] for t in range(T)}
    mut = PlanSystem('mut', m, plan)
    if rnd.random() < .5:
        m.systems.add_system(col)
        m.systems.add_system(mut)
    else:
        m.systems.add_system(mut)
        m.systems.add_system(col)

    for t in range(T):
        for _ in range(rnd.randint(0, 2)):  # between timesteps
            rnd.choice(ops)(m)
        before = list(col.records)
        before_copy = copy.deepcopy(before)
        m.execute()
        sched = start <= t <= end and (start - t) % freq == 0
        exp = None
        if sched:
            exp = {}
            if incl:
                exp['timestep'] = t
            for k, v in pop.items():
                if v is not None:
                    exp[k] = v
            if usecomp:
                c = [None, {}, {'_n': len(pop)}, {'_n': 0, '_z': None}][comp_plan[t]]
                if c is not None:
                    exp.update(c)
            if not exp:
                exp = None
        new = col.records[len(before):]
        if exp is None:
            if new:
                return f'seed {seed} t={t}: record invented: {new}'
        else:
            if len(new) != 1:
                return f'seed {seed} t={t}: expected one record, got {new}'
            got = new[0]
            if list(got) != list(exp) or not all(same(got[k], exp[k]) for k in exp):
                return f'seed {seed} t={t}: got {got} expected {exp}'
        # earlier records: same objects, unchanged content
        if any(x is not y for x, y in zip(col.records, before)) or repr(before) != repr(before_copy):
            return f'seed {seed} t={t}: earlier records altered'
    return None


@experiment
def exp01_agent_collector_random_reference():
    for seed in range(1500):
        err = _agent_collector_run(seed)
        if err:
            return 'VIOLATION', err
    return 'OK', '1500 random histories (join/leave/re-join between and during timesteps, falsy results, windows, composite, timestep)'


# --------------------------------------------------------------------------------------------------------------------
# 2. randomized reference model for the FileCollector (real files)
# --------------------------------------------------------------------------------------------------------------------
class GenFileCollector(FileCollector):
    def __init__(self, *a, gen=None, **k):
        super().__init__(*a, **k)
        self.gen = gen
        self.everything = []

    def collect(self):
        for r in self.gen(self.model.systems.timestep):
            self.records.append(r)
            self.everything.append(r)


def _read(fn):
    if not os.path.exists(fn):
        return ''
    with open(fn, newline='') as f:  # newline='' : see exactly what was written
        return f.read()


def _file_collector_run(seed, d, T=15):
    rnd = random.Random(seed)
    fn = os.path.join(d, 'f%d.txt' % seed)
    m = Model()
    wc = rnd.choice([0, 0, 1, 2, 3, 7, 100])
    start = rnd.choice([0, 0, 1, 3])
    end = rnd.choice([sys.maxsize, 5, 8])
    freq = rnd.choice([1, 1, 2, 3])
    pieces = ['a\n', 'b', '', '\r\n', '\r', 'é\n', ' ', 'x,y\n', '\n\n', '\t', '\U0001F600', '\x00', '\x1a']

    def gen(t):
        return [rnd.choice(pieces) + (str(t) if rnd.random() < .7 else '') for _ in range(rnd.choice([0, 0, 1, 2, 5]))]

    col = GenFileCollector('fc', m, fn, write_count=wc, start=start, end=end, frequency=freq, gen=gen)
    m.systems.add_system(col)
    ncol = 0
    for t in range(T):
        before = _read(fn)
        m.execute()
        sched = start <= t <= end and (start - t) % freq == 0
        if sched:
            ncol += 1
        txt = _read(fn)
        if txt + ''.join(col.records) != ''.join(col.everything):
            return f'seed {seed} t={t}: file+held != collected'
        if sched and ncol % (wc + 1) == 0:
            if col.records or txt != ''.join(col.everything):
                return f'seed {seed} t={t}: no flush after collection #{ncol} with write_count={wc}'
        elif txt != before:
            return f'seed {seed} t={t}: unexpected flush'
    return None


@experiment
def exp02_file_collector_random_reference():
    with tempfile.TemporaryDirectory() as d:
        for seed in range(600):
            err = _file_collector_run(seed, d)
            if err:
                return 'VIOLATION', err
    return 'OK', '600 random runs checked after EVERY timestep (write_count, windows, 0..5 records, CR/LF/NUL/non-ASCII text)'


# --------------------------------------------------------------------------------------------------------------------
# 3. falsy things
# --------------------------------------------------------------------------------------------------------------------
@experiment
def exp03_falsy_agents_results_env():
    import numpy as np

    class Falsy(Agent):
        def __bool__(self):
            return False

    class EmptyLen:
        def __len__(self):
            return 0

    class NoBool:
        def __bool__(self):
            raise RuntimeError('truth value taken')

        def __eq__(self, o):
            raise RuntimeError('compared')

        __hash__ = object.__hash__

    m = Model()
    vals = {'f': 0, 'g': '', 'h': EmptyLen(), 'i': NoBool(), 'j': np.float64(-0.0), 'k': np.bool_(False),
            'l': np.array([]), 'm': -0.0, 'n': 10 ** 40, 'o': False}
    for k in vals:
        m.environment.add_agent(Falsy(k, m))  # agents without components: len()==0 and bool()==False
    assert not m.environment.agents['f'] and len(m.environment.agents['f']) == 0
    col = AgentCollector(m, lambda a: vals[a.id], compositeFunc=lambda ag: {})
    m.systems.add_system(col)
    m.execute()
    rec = col.records[0]
    if list(rec) != list(vals) or any(rec[k] is not vals[k] for k in vals):
        return 'VIOLATION', f'falsy results altered/lost: {rec}'
    # empty (falsy) environment, falsy composite values
    m2 = Model()
    assert len(m2.environment) == 0
    c2 = AgentCollector(m2, lambda a: 1, compositeFunc=lambda ag: {'zero': 0, 'none': None, '': ''})
    m2.systems.add_system(c2)
    m2.execute()
    if c2.records != [{'zero': 0, 'none': None, '': ''}]:
        return 'VIOLATION', f'falsy composite data lost: {c2.records}'
    return 'OK', 'falsy agents / results (0, "", -0.0, numpy, __len__==0, __bool__ raising) kept by identity; empty env'


# --------------------------------------------------------------------------------------------------------------------
# 4. ids
# --------------------------------------------------------------------------------------------------------------------
@experiment
def exp04_id_kinds():
    class S(str):
        def __str__(self):
            return 'lies'

    m = Model()
    ids = [S('a'), '', 0, -1, 10 ** 30, (1, 2), 1.5, None, 'ENVIRONMENT', 'AgentCollector', 'records']
    for i in ids:
        m.environment.add_agent(Agent(i, m))
    col = AgentCollector(m, lambda a: ('r', a.id))
    m.systems.add_system(col)
    m.execute()
    rec = col.records[0]
    if len(rec) != len(ids) or any(k is not i for k, i in zip(rec, ids)) or any(rec[i] != ('r', i) for i in ids):
        return 'VIOLATION', f'record keys/results wrong for unusual ids: {rec}'
    return 'OK', 'str-subclass, empty, int, tuple, float, None ids all recorded under the identical key object'


# --------------------------------------------------------------------------------------------------------------------
# 5. earlier records are never altered / no aliasing between records
# --------------------------------------------------------------------------------------------------------------------
@experiment
def exp05_no_aliasing():
    m = Model()
    m.environment.add_agent(VAgent('a', m, 1))
    shared = {'c': 1}
    col = AgentCollector(m, lambda a: a.v, compositeFunc=lambda ag: shared, includeTimstep=True)
    m.systems.add_system(col)
    m.execute()
    shared['c'] = 2          # the composite function's own dict changes afterwards
    shared['extra'] = 3
    m.environment.agents['a'].v = 5
    m.environment.add_agent(VAgent('b', m, 7))
    m.execute()
    m.environment.remove_agent('a')
    m.execute()
    exp = [{'timestep': 0, 'a': 1, 'c': 1},
           {'timestep': 1, 'a': 5, 'b': 7, 'c': 2, 'extra': 3},
           {'timestep': 2, 'b': 7, 'c': 2, 'extra': 3}]
    if col.records != exp:
        return 'VIOLATION', f'{col.records} != {exp}'
    if len({id(r) for r in col.records}) != 3 or any(r is shared for r in col.records):
        return 'VIOLATION', 'records alias each other or the composite dict'
    if any(r is m.environment.agents for r in col.records):
        return 'VIOLATION', 'record aliases environment.agents'
    return 'OK', 'each record is a fresh dict; composite dict is copied; old records keep old values'


# --------------------------------------------------------------------------------------------------------------------
# 6. default settings observe the state left by the timestep's systems
# --------------------------------------------------------------------------------------------------------------------
@experiment
def exp06_observes_post_system_state():
    class Inc(System):
        def execute(self):
            for a in self.model.environment:
                a.v += 1

    for order in range(4):
        m = Model()
        m.environment.add_agent(VAgent('a', m, 0))
        col = AgentCollector(m, lambda a: a.v)
        syss = [Inc('i1', m), Inc('i2', m), Inc('i3', m, priority=5)]
        seq = {0: [col] + syss, 1: syss + [col], 2: [syss[0], col, syss[1], syss[2]], 3: [syss[2], col, syss[0], syss[1]]}
        for s in seq[order]:
            m.systems.add_system(s)
        m.execute(3)
        if col.records != [{'a': 3}, {'a': 6}, {'a': 9}]:
            return 'VIOLATION', f'registration order {order}: {col.records}'
    # systems that join during the timestep, agents created by systems
    m = Model()

    class Spawner(System):
        def execute(self):
            t = self.model.systems.timestep
            self.model.environment.add_agent(VAgent('s%d' % t, self.model, t))
            if t == 1:
                self.model.systems.add_system(Inc('late', self.model))

    col = AgentCollector(m, lambda a: a.v)
    m.systems.add_system(col)
    m.systems.add_system(Spawner('sp', m))
    m.execute(3)
    # t0: s0=0 ; t1: s0=0,s1=1 (late system added, runs from t2 after Spawner) ; t2: 1,2,3
    if col.records != [{'s0': 0}, {'s0': 0, 's1': 1}, {'s0': 1, 's1': 2, 's2': 3}]:
        return 'VIOLATION', f'{col.records}'
    return 'OK', 'collector (priority -1) runs after all default/higher priority systems whatever the registration order'


# --------------------------------------------------------------------------------------------------------------------
# 7. systems removed next to the collector during a timestep
# --------------------------------------------------------------------------------------------------------------------
@experiment
def exp07_system_removal_next_to_collector():
    class Once(System):
        def execute(self):
            self.clean_up()

    class Killer(System):
        def __init__(self, id, m, victim, **k):
            super().__init__(id, m, **k)
            self.victim = victim

        def execute(self):
            if self.victim in self.model.systems.systems:
                self.model.systems.remove_system(self.victim)

    m = Model()
    m.environment.add_agent(VAgent('a', m, 1))
    col = AgentCollector(m, lambda a: a.v, includeTimstep=True)
    col2 = AgentCollector(m, lambda a: a.v, includeTimstep=True, id='col2', priority=-2)
    for s in [Once('o1', m), Once('o2', m), col, Once('o3', m, priority=-1), col2, Once('o4', m, priority=-2)]:
        m.systems.add_system(s)
    m.execute(3)
    exp = [{'timestep': t, 'a': 1} for t in range(3)]
    if col.records != exp or col2.records != exp:
        return 'VIOLATION', f'{col.records} / {col2.records}'
    # removing and re-adding the collector itself inside a timestep (still exactly one record per timestep)
    m = Model()
    m.environment.add_agent(VAgent('a', m, 1))
    col = AgentCollector(m, lambda a: a.v, includeTimstep=True)

    class Rereg(System):
        def execute(self):
            self.model.systems.remove_system(col.id)
            self.model.systems.add_system(col)

    m.systems.add_system(col)
    m.systems.add_system(Rereg('rr', m))
    m.execute(3)
    if col.records != exp:
        return 'VIOLATION', f're-registered collector: {col.records}'
    return 'OK', 'self-removing systems before/after/beside collectors: one record per timestep, none skipped or doubled'


# --------------------------------------------------------------------------------------------------------------------
# 8. environments: replaced, spatial
# --------------------------------------------------------------------------------------------------------------------
@experiment
def exp08_environments():
    m = Model()
    col = AgentCollector(m, lambda a: a.id.upper())
    m.systems.add_system(col)
    m.environment.add_agent(Agent('old', m))
    m.execute()
    g = GridWorld(m, 3, 3)
    m.set_environment(g)
    g.add_agent(Agent('g1', m), 1, 1)
    g.add_agent(Agent('g2', m), 2, 2)
    m.execute()
    g.remove_agent('g1')
    m.execute()
    lw = LineWorld(m, 4)
    stray = Environment(m, id='stray')          # an environment that is not model.environment
    stray.add_agent(Agent('ghost', m))
    m.environment = lw
    lw.add_agent(Agent('l1', m), 3)
    m.execute()
    sw = SpaceWorld(m, 2.5, 2.5)
    m.set_environment(sw)
    m.execute()  # empty -> no record

    class Swap(System):  # replaced *during* a timestep
        def execute(self):
            e = Environment(self.model)
            e.add_agent(Agent('swapped', self.model))
            self.model.set_environment(e)

    m.systems.add_system(Swap('swap', m))
    m.execute()
    exp = [{'old': 'OLD'}, {'g1': 'G1', 'g2': 'G2'}, {'g2': 'G2'}, {'l1': 'L1'}, {'swapped': 'SWAPPED'}]
    if col.records != exp:
        return 'VIOLATION', f'{col.records} != {exp}'
    return 'OK', 'collector follows model.environment (Grid/Line/SpaceWorld, replaced between and during timesteps)'


# --------------------------------------------------------------------------------------------------------------------
# 9. several models alive at once, nested stepping, re-entrant stepping
# --------------------------------------------------------------------------------------------------------------------
@experiment
def exp09_many_models_nested():
    inner = Model()
    inner.environment.add_agent(VAgent('i', inner, 'inner'))
    icol = AgentCollector(inner, lambda a: a.v, includeTimstep=True)
    inner.systems.add_system(icol)
    outer = Model()
    outer.environment.add_agent(VAgent('o', outer, 'outer'))
    ocol = AgentCollector(outer, lambda a: a.v, includeTimstep=True)
    outer.systems.add_system(ocol)

    class Nest(System):
        def execute(self):
            inner.execute(2)

    outer.systems.add_system(Nest('nest', outer))
    outer.execute(3)
    if ocol.records != [{'timestep': t, 'o': 'outer'} for t in range(3)]:
        return 'VIOLATION', f'outer: {ocol.records}'
    if icol.records != [{'timestep': t, 'i': 'inner'} for t in range(6)]:
        return 'VIOLATION', f'inner: {icol.records}'
    if icol.records is ocol.records:
        return 'VIOLATION', 'shared records list'

    # re-entrant: a system steps its own model once (guarded)
    m = Model()
    m.environment.add_agent(VAgent('a', m, 1))
    col = AgentCollector(m, lambda a: a.v, includeTimstep=True)

    class Reenter(System):
        busy = False

        def execute(self):
            if not Reenter.busy and self.model.systems.timestep == 1:
                Reenter.busy = True
                self.model.execute()
                Reenter.busy = False

    m.systems.add_system(Reenter('re', m))
    m.systems.add_system(col)
    m.execute(3)
    ts = [r['timestep'] for r in col.records]
    if ts != sorted(set(ts)) or ts != list(range(len(ts))):
        return 'VIOLATION', f're-entrant stepping duplicated/lost timesteps: {ts}'
    return 'OK', 'two models + nested stepping + guarded re-entrant stepping: no cross-talk, no duplicate timesteps'


# --------------------------------------------------------------------------------------------------------------------
# 10. key collisions in the flat record
# --------------------------------------------------------------------------------------------------------------------
@experiment
def exp10_timestep_key_collision():
    m = Model()
    m.environment.add_agent(Agent('timestep', m))
    m.environment.add_agent(Agent('b', m))
    col = AgentCollector(m, lambda a: 'result of ' + a.id, includeTimstep=True)
    m.systems.add_system(col)
    m.execute(2)
    rec = col.records[1]
    # The record must hold the timestep (1) AND the result for agent 'timestep'. It cannot hold both in one key.
    if rec.get('timestep') != 1 or 'result of timestep' not in rec.values():
        return 'VIOLATION', ("agent id 'timestep' + includeTimstep=True: record at t=1 is %r - the timestep value is "
                             "silently overwritten by the per-agent result (timestep lost). "
                             "Repro: m=Model(); m.environment.add_agent(Agent('timestep', m)); "
                             "c=AgentCollector(m, lambda a: 'x', includeTimstep=True); m.systems.add_system(c); "
                             "m.execute(2); c.records -> [{'timestep': 'x'}, {'timestep': 'x'}]" % (rec,))
    return 'OK', ''


@experiment
def exp11_composite_key_collision():
    m = Model()
    m.environment.add_agent(VAgent('a', m, 1))
    col = AgentCollector(m, lambda a: a.v, compositeFunc=lambda ag: {'a': 'composite'})
    m.systems.add_system(col)
    m.execute()
    if col.records != [{'a': 1}] and col.records == [{'a': 'composite'}]:
        return 'NOTE', ("composite key equal to an agent id overwrites that agent's result (%r). Documented "
                        "('used to update the dict of that record') and the key is chosen by the user's own "
                        "composite function -> not counted." % col.records)
    return 'OK', ''


# --------------------------------------------------------------------------------------------------------------------
# 12. model completed from inside a timestep
# --------------------------------------------------------------------------------------------------------------------
@experiment
def exp12_completion_inside_timestep():
    m = Model()
    m.environment.add_agent(VAgent('a', m, 0))

    class Work(System):
        def execute(self):
            self.model.environment.agents['a'].v += 1
            if self.model.systems.timestep == 2:
                self.model.complete()

    col = AgentCollector(m, lambda a: a.v, includeTimstep=True)
    m.systems.add_system(col)
    m.systems.add_system(Work('w', m))
    for _ in range(5):
        m.execute()
    ts = [r['timestep'] for r in col.records]
    if m.systems.timestep == 3 and ts == [0, 1]:
        return 'NOTE', ('a default-priority system calling model.complete() at t=2: timestep 2 is counted '
                        '(model.timestep == 3, agent value 3) but the collector never records it: records=%r. '
                        'Deliberate scheduler behaviour (execute_systems breaks once the model is complete) and the '
                        'property scope does not quantify over completion -> not counted.' % (col.records,))
    return 'OK', f'{col.records}'


# --------------------------------------------------------------------------------------------------------------------
# 13. file collector: existing content, CRLF, encoding, empty flushes
# --------------------------------------------------------------------------------------------------------------------
class ListFileCollector(FileCollector):
    """collect() takes the records planned for the current timestep."""

    def __init__(self, *a, plan=None, **k):
        super().__init__(*a, **k)
        self.plan = plan
        self.everything = []

    def collect(self):
        for r in self.plan.get(self.model.systems.timestep, []):
            self.records.append(r)
            self.everything.append(r)


@experiment
def exp13_file_content_fidelity():
    class S(str):
        def __str__(self):
            return 'LIE'

        def __repr__(self):
            return 'LIE'

    with tempfile.TemporaryDirectory() as d:
        fn = os.path.join(d, 'pre.txt')
        with open(fn, 'w', newline='') as f:
            f.write('HEADER\r\n')
        plan = {0: ['a\r\n', 'b\n'], 1: [], 2: ['', S('sub'), 'é \x85', '﻿'], 3: ['end']}
        m = Model()
        fc = ListFileCollector('fc', m, fn, plan=plan, write_count=1)
        m.systems.add_system(fc)
        for t in range(4):
            m.execute()
            txt = _read(fn)
            if txt + ''.join(fc.records) != 'HEADER\r\n' + ''.join(fc.everything):
                return 'VIOLATION', f't={t}: {txt!r} + {fc.records!r}'
        if _read(fn) != 'HEADER\r\na\r\nb\nsubé \x85﻿end':
            return 'VIOLATION', f'final {_read(fn)!r}'
        # a flush with nothing to write must not disturb the file; write_count larger than the run never flushes
        fn2 = os.path.join(d, 'never.txt')
        m = Model()
        fc = ListFileCollector('fc', m, fn2, plan={t: ['x%d' % t] for t in range(5)}, write_count=10)
        m.systems.add_system(fc)
        m.execute(5)
        if os.path.exists(fn2) or fc.records != ['x0', 'x1', 'x2', 'x3', 'x4']:
            return 'VIOLATION', 'write_count=10, 5 collections: something flushed or lost'
    return 'OK', 'pre-existing content kept, CRLF/BOM/NEL/LS/str-subclass written verbatim, empty flushes harmless'


@experiment
def exp14_write_count_kinds():
    import numpy as np
    with tempfile.TemporaryDirectory() as d:
        for i, (wc, eff) in enumerate([(0, 0), (False, 0), (True, 1), (1.0, 1), (np.int64(2), 2), (2.5, 2),
                                       (10 ** 30, 10 ** 30), (np.float64(0.0), 0)]):
            fn = os.path.join(d, 'w%d.txt' % i)
            m = Model()
            fc = ListFileCollector('fc', m, fn, plan={t: ['<%d>' % t] for t in range(9)}, write_count=wc)
            m.systems.add_system(fc)
            for t in range(9):
                m.execute()
                n = t + 1
                flushed = (n // (eff + 1)) * (eff + 1)
                if _read(fn) != ''.join('<%d>' % k for k in range(flushed)) or \
                        fc.records != ['<%d>' % k for k in range(flushed, n)]:
                    return 'VIOLATION', f'write_count={wc!r} t={t}: file={_read(fn)!r} held={fc.records}'
    return 'OK', 'write_count as int/bool/float/numpy/huge int flushes after every (write_count+1)-th collection'


@experiment
def exp15_clear_records_on_write_false():
    with tempfile.TemporaryDirectory() as d:
        fn = os.path.join(d, 'k.txt')
        m = Model()
        fc = ListFileCollector('fc', m, fn, plan={t: ['<%d>' % t] for t in range(3)}, clear_records_on_write=False)
        m.systems.add_system(fc)
        m.execute(3)
        if _read(fn) == '<0><0><1><0><1><2>':
            return 'NOTE', ("append mode + clear_records_on_write=False re-writes kept records on every flush "
                            "(file '<0><0><1><0><1><2>'). This is the documented meaning of the non-default option "
                            "(intended for filemode 'w'); the property speaks of the default clearing behaviour "
                            "-> not counted.")
    return 'OK', ''


@experiment
def exp16_write_failure_half_complete():
    with tempfile.TemporaryDirectory() as d:
        fn = os.path.join(d, 'e.txt')
        plan = {0: ['r0\n'], 1: ['r1\n', '\ud800'], 2: ['r2\n']}  # a lone surrogate cannot be encoded as UTF-8
        m = Model()
        fc = ListFileCollector('fc', m, fn, plan=plan, write_count=1)
        m.systems.add_system(fc)
        m.execute()
        try:
            m.execute()
            return 'OK', 'no encode error on this platform'
        except UnicodeEncodeError:
            pass
        gc.collect()
        txt = _read(fn)
        if txt + ''.join(fc.records) != ''.join(fc.everything):
            return 'NOTE', ('when a flush fails half-way (here: an un-encodable record) the records written before '
                            'the failure are on disk AND still held (file=%r held=%r), the file handle is not closed, '
                            'and a retry duplicates them. I/O / encoding failures are not part of the stated scope '
                            '-> not counted (suggest `with open(...)` + writing "".join(records) in one go).'
                            % (txt, fc.records))
    return 'OK', ''


# --------------------------------------------------------------------------------------------------------------------
# 17. hash-seed independence (subprocess)
# --------------------------------------------------------------------------------------------------------------------
def _child_hashseed():
    m = Model()
    ids = ['zeta', 'alpha', 'mid', 'é', '', 'timestep2', 'B', 'b']
    for i in ids:
        m.environment.add_agent(VAgent(i, m, i[::-1]))
    col = AgentCollector(m, lambda a: a.v, compositeFunc=lambda ag: {'n': len(ag)}, includeTimstep=True)
    m.systems.add_system(col)
    m.execute()
    m.environment.remove_agent('mid')
    m.environment.add_agent(VAgent('mid', m, 'again'))
    m.execute()
    print(repr([list(r.items()) for r in col.records]))


@experiment
def exp17_hash_seed():
    outs = set()
    for seed in ['0', '1', '12345', 'random']:
        env = dict(os.environ, PYTHONHASHSEED=seed, PYTHONPATH=HERE)
        p = subprocess.run([sys.executable, os.path.abspath(__file__), '--child-hashseed'], env=env,
                           capture_output=True, text=True, timeout=120)
        if p.returncode != 0:
            return 'NOTE', 'child failed: ' + p.stderr[-300:]
        outs.add(p.stdout)
    if len(outs) != 1:
        return 'VIOLATION', f'records (content or key order) depend on the hash seed: {outs}'
    return 'OK', 'identical records (including key order) under 4 hash seeds'


# --------------------------------------------------------------------------------------------------------------------
# 18. real multiprocessing (subprocess + timeout)
# --------------------------------------------------------------------------------------------------------------------
class BatchModel(Model):
    def __init__(self, n, k):
        super().__init__(seed=n * 10 + k)
        for i in range(n):
            self.environment.add_agent(VAgent('a%d' % i, self, i * k))
        self.systems.add_system(AgentCollector(self, _batch_agent_func, includeTimstep=True, frequency=2))
        self.systems.add_system(AgentCollector(self, _batch_agent_func, id='c2', start=1, end=3))
        self.systems.add_system(_Leaver('leaver', self))


def _batch_agent_func(a):
    return a.v if a.v % 2 == 0 else None


class _Leaver(System):
    def execute(self):
        ids = list(self.model.environment.agents)
        if ids:
            self.model.environment.remove_agent(ids[0])


def _child_batch():
    params = {'n': [0, 1, 3, 4], 'k': [1, 2]}
    kw = dict(collectors=['AgentCollector', 'c2'], max_timesteps=5, repetitions=2)
    one = Batching.batch_run(BatchModel, params, processes=1, **kw)
    many = Batching.batch_run(BatchModel, params, processes=3, **kw)
    single = Batching.batch_run(BatchModel, params, collectors='c2', processes=2, max_timesteps=5)
    single1 = Batching.batch_run(BatchModel, params, collectors='c2', processes=1, max_timesteps=5)
    ok = sorted(map(repr, one)) == sorted(map(repr, many)) and len(one) == 16 and \
        sorted(map(repr, single)) == sorted(map(repr, single1)) and len(single) == 8
    print('SAME' if ok else 'DIFF %r\n%r' % (one, many))


@experiment
def exp18_multiprocessing():
    env = dict(os.environ, PYTHONPATH=HERE)
    try:
        p = subprocess.run([sys.executable, os.path.abspath(__file__), '--child-batch'], env=env,
                           capture_output=True, text=True, timeout=180)
    except subprocess.TimeoutExpired:
        return 'NOTE', 'batch_run with processes=3 timed out (hang) - batching is a different property; not counted'
    if p.stdout.strip() != 'SAME':
        return 'VIOLATION', 'records returned by batch_run(processes=3) differ from processes=1: ' + \
            (p.stdout + p.stderr)[-500:]
    return 'OK', 'collector records returned through batch_run with 3 worker processes equal the in-process ones'


# --------------------------------------------------------------------------------------------------------------------
# 19. window edge cases
# --------------------------------------------------------------------------------------------------------------------
@experiment
def exp19_windows():
    big = 2 ** 70
    cases = [dict(start=0, end=0), dict(start=5, end=4), dict(start=-3, frequency=2), dict(start=2, end=6, frequency=-3),
             dict(start=1, frequency=10 ** 25), dict(start=big, end=big + 3, frequency=2), dict(start=True, end=3.5),
             dict(frequency=2.0), dict(start=0, end=sys.maxsize)]
    for kw in cases:
        m = Model()
        m.environment.add_agent(VAgent('a', m, 0))
        col = AgentCollector(m, lambda a: a.v, includeTimstep=True, **kw)
        m.systems.add_system(col)
        base = big - 2 if kw.get('start') == big else 0
        m.systems.timestep = base
        m.execute(10)
        s, e, f = kw.get('start', 0), kw.get('end', sys.maxsize), kw.get('frequency', 1)
        exp = [t for t in range(base, base + 10) if s <= t <= e and (s - t) % f == 0]
        got = [r['timestep'] for r in col.records]
        if got != exp:
            return 'VIOLATION', f'window {kw}: collected at {got}, scheduled at {exp}'
    return 'OK', 'start/end/frequency: single step, empty window, negative start/frequency, huge ints, float/bool bounds'


# --------------------------------------------------------------------------------------------------------------------
# 20. an agent function that raises leaves no partial record; retry neither loses nor duplicates
# --------------------------------------------------------------------------------------------------------------------
@experiment
def exp20_agent_func_raises():
    m = Model()
    for i in range(3):
        m.environment.add_agent(VAgent('a%d' % i, m, i))
    boom = [True]

    def af(a):
        if a.id == 'a1' and boom[0]:
            raise ValueError('boom')
        return a.v

    col = AgentCollector(m, af, includeTimstep=True)
    m.systems.add_system(col)
    try:
        m.execute()
        return 'VIOLATION', 'exception swallowed'
    except ValueError:
        pass
    if col.records:
        return 'VIOLATION', f'partial record invented: {col.records}'
    boom[0] = False
    m.execute(2)
    if col.records != [{'timestep': 0, 'a0': 0, 'a1': 1, 'a2': 2}, {'timestep': 1, 'a0': 0, 'a1': 1, 'a2': 2}]:
        return 'VIOLATION', f'{col.records}'
    return 'OK', 'failing agentFunc: no partial record, timestep not consumed, retry gives exactly one record per timestep'


# --------------------------------------------------------------------------------------------------------------------
# 21. collectors reused / many collectors / subclass
# --------------------------------------------------------------------------------------------------------------------
@experiment
def exp21_many_collectors_and_reuse():
    m = Model()
    m.environment.add_agent(VAgent('a', m, 1))
    cols = [AgentCollector(m, (lambda k: lambda a: (k, a.v))(k), id='c%d' % k, priority=-1 - (k % 3),
                           frequency=1 + k % 4, start=k % 5, includeTimstep=True) for k in range(40)]
    for c in cols:
        m.systems.add_system(c)
    m.execute(12)
    for k, c in enumerate(cols):
        exp = [{'timestep': t, 'a': (k, 1)} for t in range(12) if t >= k % 5 and (k % 5 - t) % (1 + k % 4) == 0]
        if c.records != exp:
            return 'VIOLATION', f'collector c{k}: {c.records}'
    # move a collector (with its history) to a second model
    c = cols[0]
    m.systems.remove_system(c.id)
    old = list(c.records)
    m2 = Model()
    m2.environment.add_agent(VAgent('z', m2, 9))
    c.model = m2
    m2.systems.add_system(c)
    m2.execute(2)
    m.execute(2)
    if c.records[:len(old)] != old or c.records[len(old):] != [{'timestep': 0, 'z': (0, 9)}, {'timestep': 1, 'z': (0, 9)}]:
        return 'VIOLATION', f'moved collector: {c.records[len(old):]}'
    return 'OK', '40 collectors with different windows/priorities; a collector moved to another model keeps its history'


# --------------------------------------------------------------------------------------------------------------------
# 22. file collector driven by a changing population + AgentCollector-like composite, stop at any time
# --------------------------------------------------------------------------------------------------------------------
@experiment
def exp22_csv_file_collector_population():
    class Csv(FileCollector):
        def __init__(self, *a, **k):
            super().__init__(*a, **k)
            self.everything = []

        def collect(self):
            for a in self.model.environment:
                if a.v is not None:
                    line = '%d,%s,%r\n' % (self.model.systems.timestep, a.id, a.v)
                    self.records.append(line)
                    self.everything.append(line)

    with tempfile.TemporaryDirectory() as d:
        for stop in range(0, 9):
            for wc in (0, 1, 2, 4):
                fn = os.path.join(d, 's%d_%d.csv' % (stop, wc))
                m = Model()
                rnd = random.Random(stop * 10 + wc)
                n = [0]

                def churn(model):
                    if rnd.random() < .6:
                        model.environment.add_agent(VAgent('a%d' % n[0], model, rnd.choice([None, 0, 1, 'v'])))
                        n[0] += 1
                    elif model.environment.agents:
                        model.environment.remove_agent(rnd.choice(list(model.environment.agents)))

                m.systems.add_system(PlanSystem('p', m, {t: [churn, churn] for t in range(9)}))
                fc = Csv('csv', m, fn, write_count=wc)
                m.systems.add_system(fc)
                for _ in range(stop):
                    churn(m)
                    m.execute()
                txt = _read(fn)
                if txt + ''.join(fc.records) != ''.join(fc.everything):
                    return 'VIOLATION', f'stop={stop} wc={wc}'
                # whole-flush prefix: the file holds exactly the collections 0 .. k*(wc+1)-1
                k = (stop // (wc + 1)) * (wc + 1)
                exp = ''.join(l for l in fc.everything if int(l.split(',')[0]) < k)
                if txt != exp:
                    return 'VIOLATION', f'stop={stop} wc={wc}: file is not a whole-flush prefix'
    return 'OK', 'population-driven file collector stopped after every timestep 0..8: file is always a whole-flush prefix'


# --------------------------------------------------------------------------------------------------------------------
def main():
    if '--child-hashseed' in sys.argv:
        _child_hashseed()
        return 0
    if '--child-batch' in sys.argv:
        _child_batch()
        return 0
    import ECAgent
    print('ECAgent from', ECAgent.__file__)
    exps = [v for k, v in sorted(globals().items()) if getattr(v, '_is_experiment', False)]
    for fn in exps:
        try:
            status, msg = fn()
        except Exception as e:  # an unexpected crash of an experiment is reported, not counted
            import traceback
            status, msg = 'NOTE', 'experiment crashed: ' + ''.join(traceback.format_exception_only(type(e), e)).strip()
        report(fn.__name__, status, msg)
    nviol = sum(1 for r in RESULTS if r[1] == 'VIOLATION')
    nnote = sum(1 for r in RESULTS if r[1] == 'NOTE')
    print(f'\n{len(RESULTS)} experiments: {nviol} genuine violation(s), {nnote} note(s) (not counted), '
          f'{len(RESULTS) - nviol - nnote} OK')
    return 1 if nviol else 0


if __name__ == '__main__':
    sys.exit(main())
