"""Second-pass bug hunt for property C17: "Collectors record faithfully".

Run with:  cd /tmp/wt-C17-i && PYTHONPATH=/tmp/wt-C17-i /venv/bin/python hunt.py
Exit status 1 iff at least one genuine in-scope violation was found, else 0.
Only the public API of ECAgent is used.
"""
import copy
import os
import random
import subprocess
import sys
import tempfile
from sys import maxsize

from ECAgent.Core import Model, Agent, System, Component
from ECAgent.Collectors import Collector, AgentCollector, FileCollector
from ECAgent.Environments import GridWorld, LineWorld

VIOLATIONS = []
NOTES = []


def report(name, problem=None):
    if problem is None:
        print(f"[OK]        {name}")
    else:
        print(f"[VIOLATION] {name}: {problem}")
        VIOLATIONS.append(name)


def note(name, text):
    print(f"[NOTE]      {name}: {text}")
    NOTES.append(name)


def scheduled(t, start, end, freq):
    return start <= t <= end and (start - t) % freq == 0


class FnSystem(System):
    """A system with default priority (0) that runs a callable."""

    def __init__(self, id, model, fn, **kw):
        super().__init__(id, model, **kw)
        self.fn = fn

    def execute(self):
        self.fn(self.model)


class Val(Component):
    def __init__(self, agent, model, v):
        super().__init__(agent, model)
        self.v = v


# --------------------------------------------------------------------------------------------------------------------
# 1. Randomised differential test of AgentCollector against an independent reference
# --------------------------------------------------------------------------------------------------------------------
FALSY_AND_OTHER = [0, '', [], (), {}, 0.0, -0.0, False, True, 1, 'x', [0], 10 ** 40, None, None, None]


def exp_random_agent_collector(seed):
    rng = random.Random(seed)
    model = Model()
    start = rng.choice([0, 0, 1, 2, 5])
    end = rng.choice([maxsize, maxsize, 3, 7, start, start - 1 if start else 0])
    freq = rng.choice([1, 1, 2, 3, 7])
    incl = rng.random() < 0.4
    with_comp = rng.random() < 0.5
    values = {}          # agent id -> value returned by agentFunc (None == "nothing")
    comp_plan = {}       # timestep -> composite return

    def agent_func(agent):
        return values[agent.id]

    def comp_func(agents):
        t = model.systems.timestep
        if t not in comp_plan:
            comp_plan[t] = rng.choice([None, {}, {'n': len(agents)}, {'n': 0, 'm': ''}])
        return comp_plan[t]

    # The collector is added FIRST, the mutating systems afterwards: with default settings it still has to run last.
    collector = AgentCollector(model, agent_func, compositeFunc=comp_func if with_comp else None,
                               includeTimstep=incl, start=start, end=end, frequency=freq)
    model.systems.add_system(collector)
    counter = [0]

    def mutate(m):
        env = m.environment
        for _ in range(rng.randrange(0, 4)):
            if env.agents and rng.random() < 0.45:
                victim = rng.choice(list(env.agents))
                env.remove_agent(victim)
            else:
                counter[0] += 1
                aid = rng.choice([f"a{counter[0]}", counter[0], (counter[0], 'k'), f"a{counter[0]}"])
                values[aid] = rng.choice(FALSY_AND_OTHER)
                env.add_agent(Agent(aid, m))
        for aid in list(env.agents):  # values change over time as well
            if rng.random() < 0.3:
                values[aid] = rng.choice(FALSY_AND_OTHER)

    model.systems.add_system(FnSystem('mut1', model, mutate))
    model.systems.add_system(FnSystem('mut2', model, mutate))

    expected = []
    snapshots = []
    for t in range(14):
        if rng.random() < 0.5:          # joins/leaves between timesteps
            mutate(model)
        before = copy.deepcopy(collector.records)
        model.execute()
        # reference: state left by this timestep's systems
        if scheduled(t, start, end, freq):
            rec = {}
            if incl:
                rec['timestep'] = t
            for aid in model.environment.agents:
                if values[aid] is not None:
                    rec[aid] = values[aid]
            if with_comp and comp_plan.get(t) is not None:
                rec.update(comp_plan[t])
            if rec:
                expected.append(rec)
        if collector.records[:len(before)] != before:
            return f"seed {seed}: earlier records altered at t={t}"
        if [list(r.items()) for r in collector.records] != [list(r.items()) for r in expected]:
            return f"seed {seed}: t={t} records {collector.records!r} != expected {expected!r}"
        # types must be preserved too (0 vs False vs 0.0 compare equal)
        for got, exp in zip(collector.records, expected):
            for k in exp:
                if type(got[k]) is not type(exp[k]) or repr(got[k]) != repr(exp[k]):
                    return f"seed {seed}: value for {k!r} altered: {got[k]!r} vs {exp[k]!r}"
        snapshots.append(len(collector.records))
    return None


def run_random_agent_collector():
    for seed in range(400):
        problem = exp_random_agent_collector(seed)
        if problem:
            report("random AgentCollector histories vs reference", problem)
            return
    report("random AgentCollector histories vs reference (400 seeds: windows, falsy values, composite, "
           "timestep, joins/leaves between and during timesteps)")


# --------------------------------------------------------------------------------------------------------------------
# 2. Falsy / odd results are recorded; falsy agents are visited
# --------------------------------------------------------------------------------------------------------------------
def exp_falsy():
    class Empty:
        def __len__(self):
            return 0

    class Falsy:
        def __bool__(self):
            return False

    class NoEq:
        def __eq__(self, other):
            raise RuntimeError("compared")
        __hash__ = object.__hash__

    try:
        import numpy
        extra = [numpy.int64(0), numpy.float64(0.0), numpy.bool_(False), numpy.array([]), numpy.array([0, 1])]
    except Exception:  # pragma: no cover
        extra = []
    vals = [0, '', [], {}, set(), 0.0, -0.0, False, Empty(), Falsy(), NoEq(), b'', 0j, range(0)] + extra
    model = Model()
    for i, v in enumerate(vals):
        a = Agent(f"a{i}", model)     # agents without components are themselves falsy (len == 0)
        model.environment.add_agent(a)
    look = {f"a{i}": v for i, v in enumerate(vals)}
    c = AgentCollector(model, lambda a: look[a.id])
    model.systems.add_system(c)
    model.execute()
    if len(c.records) != 1:
        return f"expected 1 record, got {len(c.records)}"
    rec = c.records[0]
    if list(rec) != list(look):
        return f"keys {list(rec)} != {list(look)}"
    for k in look:
        if rec[k] is not look[k]:
            return f"value for {k} is not the object returned by agentFunc"
    return None


# --------------------------------------------------------------------------------------------------------------------
# 3. Composite handling
# --------------------------------------------------------------------------------------------------------------------
def exp_composite():
    model = Model()
    model.environment.add_agent(Agent('a', model))
    shared = {'g': 1}
    seen = []

    def comp(agents):
        seen.append(agents is model.environment.agents)
        return shared

    c = AgentCollector(model, lambda a: None, compositeFunc=comp)
    model.systems.add_system(c)
    model.execute()
    shared['g'] = 2          # the function's own dict changes afterwards: the record must be a copy
    shared['h'] = 3
    model.execute()
    if c.records != [{'g': 1}, {'g': 2, 'h': 3}]:
        return f"records {c.records!r}"
    if c.records[0] is shared or c.records[1] is shared:
        return "record aliases the composite function's dict"
    # composite returning {} / None adds nothing when no agent result
    c2 = AgentCollector(model, lambda a: None, compositeFunc=lambda ag: {}, id='c2')
    c3 = AgentCollector(model, lambda a: None, compositeFunc=lambda ag: None, id='c3')
    model.systems.add_system(c2)
    model.systems.add_system(c3)
    model.execute()
    if c2.records or c3.records:
        return f"empty record appended: {c2.records!r} {c3.records!r}"
    return None


# --------------------------------------------------------------------------------------------------------------------
# 4. Default settings: the collector sees the state left by the timestep's systems whatever the insertion order
# --------------------------------------------------------------------------------------------------------------------
def exp_default_order():
    for order in range(6):
        model = Model()
        a = Agent('a', model)
        a.add_component(Val(a, model, 0))
        model.environment.add_agent(a)

        def bump(m):
            m.environment.agents['a'][Val].v += 1

        things = [lambda: model.systems.add_system(FnSystem('s1', model, bump)),
                  lambda: model.systems.add_system(AgentCollector(model, lambda ag: ag[Val].v, includeTimstep=True)),
                  lambda: model.systems.add_system(FnSystem('s2', model, bump))]
        import itertools
        perm = list(itertools.permutations(range(3)))[order]
        for i in perm:
            things[i]()
        model.execute(3)
        recs = model.systems['AgentCollector'].records
        if recs != [{'timestep': 0, 'a': 2}, {'timestep': 1, 'a': 4}, {'timestep': 2, 'a': 6}]:
            return f"insertion order {perm}: {recs!r}"
    return None


# --------------------------------------------------------------------------------------------------------------------
# 5. The environment is replaced / is a spatial world; agents leave during the timestep
# --------------------------------------------------------------------------------------------------------------------
def exp_environment_replaced():
    model = Model()
    c = AgentCollector(model, lambda a: a.id.upper(), includeTimstep=True)
    model.systems.add_system(c)
    model.environment.add_agent(Agent('old', model))
    model.execute()
    model.environment = GridWorld(model, 3, 3)
    model.environment.add_agent(Agent('g1', model), 1, 1)
    model.environment.add_agent(Agent('g2', model), 2, 2)
    model.systems.add_system(FnSystem('killer', model,
                                      lambda m: m.environment.remove_agent('g1') if m.systems.timestep == 2 else None))
    model.execute()
    model.execute()
    model.set_environment(LineWorld(model, 4))
    model.execute()     # nobody in the environment, timestep only
    exp = [{'timestep': 0, 'old': 'OLD'}, {'timestep': 1, 'g1': 'G1', 'g2': 'G2'}, {'timestep': 2, 'g2': 'G2'},
           {'timestep': 3}]
    if c.records != exp:
        return f"{c.records!r} != {exp!r}"
    return None


# --------------------------------------------------------------------------------------------------------------------
# 6. Several collectors / several models alive at once do not mix
# --------------------------------------------------------------------------------------------------------------------
def exp_several_models():
    m1, m2 = Model(), Model()
    m1.environment.add_agent(Agent('x', m1))
    m2.environment.add_agent(Agent('y', m2))
    c1 = AgentCollector(m1, lambda a: 1)
    c1b = AgentCollector(m1, lambda a: 'b', id='second', frequency=2)
    c2 = AgentCollector(m2, lambda a: 2)
    m1.systems.add_system(c1)
    m1.systems.add_system(c1b)
    m2.systems.add_system(c2)
    m1.execute(3)
    m2.execute(1)
    if c1.records != [{'x': 1}] * 3 or c1b.records != [{'x': 'b'}] * 2 or c2.records != [{'y': 2}]:
        return f"{c1.records} {c1b.records} {c2.records}"
    if c1.records[0] is c1.records[1]:
        return "records share one dict object"
    return None


# --------------------------------------------------------------------------------------------------------------------
# 7. Collector removed / re-added / cleaned up from inside a timestep; completed model
# --------------------------------------------------------------------------------------------------------------------
def exp_remove_readd():
    model = Model()
    model.environment.add_agent(Agent('a', model))
    c = AgentCollector(model, lambda a: model.systems.timestep)

    def juggle(m):
        if m.systems.timestep == 1:
            m.systems.remove_system('AgentCollector')
            m.systems.add_system(c)       # same object back: must run exactly once this timestep
        if m.systems.timestep == 3:
            m.systems.remove_system('AgentCollector')   # gone: must not run at t=3

    model.systems.add_system(c)
    model.systems.add_system(FnSystem('j', model, juggle))
    model.execute(5)
    if c.records != [{'a': 0}, {'a': 1}, {'a': 2}]:
        return f"{c.records!r}"
    model.complete()
    model.execute(2)
    if c.records != [{'a': 0}, {'a': 1}, {'a': 2}]:
        return f"records changed on a completed model: {c.records!r}"
    return None


# --------------------------------------------------------------------------------------------------------------------
# 8. FileCollector: randomised invariant  file text + held records == everything collected, flush every (wc+1)-th
# --------------------------------------------------------------------------------------------------------------------
class LineCollector(FileCollector):
    """A realistic FileCollector: collect() appends 0..k text records per collection."""

    def __init__(self, model, filename, plan, log, **kw):
        super().__init__('FC', model, filename, **kw)
        self.plan = plan
        self.log = log

    def collect(self):
        for r in self.plan(self.model.systems.timestep):
            self.records.append(r)
            self.log.append(r)


def read_raw(path):
    if not os.path.exists(path):
        return ''
    with open(path, 'r', newline='', encoding='utf-8') as f:   # newline='' : no translation while checking
        return f.read()


PIECES = ['a\n', 'b,c\r\n', '', 'é中\n', '\r', 'x' * 50 + '\n', '\n\n', 'tab\there', '\U0001F600;']


def exp_file_random(seed, tmpdir):
    rng = random.Random(seed)
    path = os.path.join(tmpdir, f"f{seed}.txt")
    prior = rng.choice(['', 'header\n', 'no newline'])
    if prior:
        with open(path, 'w', newline='', encoding='utf-8') as f:
            f.write(prior)
    model = Model()
    wc = rng.choice([0, 0, 1, 2, 3, 5, 50, True])
    start = rng.choice([0, 0, 1, 4])
    end = rng.choice([maxsize, maxsize, 6, 9])
    freq = rng.choice([1, 1, 2, 3])
    log = []

    def plan(t):
        return [rng.choice(PIECES) for _ in range(rng.choice([0, 0, 1, 1, 2, 3]))]

    fc = LineCollector(model, path, plan, log, write_count=wc, start=start, end=end, frequency=freq)
    model.systems.add_system(fc)
    model.systems.add_system(FnSystem('s', model, lambda m: None))
    collections = 0
    flushed_upto = 0     # number of log entries that must be in the file
    n_steps = rng.randrange(0, 16)
    for t in range(n_steps):
        model.execute()
        if scheduled(t, start, end, freq):
            collections += 1
            if collections % (int(wc) + 1) == 0:
                flushed_upto = len(log)
        text = read_raw(path)
        if text + ''.join(fc.records) != prior + ''.join(log):
            return f"seed {seed} t={t}: file+held != collected"
        if text != prior + ''.join(log[:flushed_upto]):
            return (f"seed {seed} t={t} wc={wc}: file holds {text!r}, expected whole-flush prefix "
                    f"{prior + ''.join(log[:flushed_upto])!r}")
        if list(fc.records) != log[flushed_upto:]:
            return f"seed {seed} t={t}: held records {fc.records!r} != {log[flushed_upto:]!r}"
    return None


def run_file_random():
    with tempfile.TemporaryDirectory() as d:
        for seed in range(400):
            problem = exp_file_random(seed, d)
            if problem:
                report("random FileCollector histories (append mode)", problem)
                return
    report("random FileCollector histories (400 seeds: write_count incl. 0/True/large, windows, 0..3 records per "
           "collection, CRLF / non-ASCII / empty records, pre-existing file, stop after any timestep)")


# --------------------------------------------------------------------------------------------------------------------
# 9. FileCollector: str-subclass records, base-class collect, relative file name, two collectors -> two files
# --------------------------------------------------------------------------------------------------------------------
def exp_file_misc():
    class S(str):
        def __str__(self):
            return 'WRONG'

        def __repr__(self):
            return 'WRONG'

    with tempfile.TemporaryDirectory() as d:
        p1, p2 = os.path.join(d, 'one.csv'), os.path.join(d, 'two.csv')
        model = Model()
        log1, log2 = [], []
        f1 = LineCollector(model, p1, lambda t: [S(f"{t};\n")], log1, write_count=1)
        f2 = LineCollector(model, p2, lambda t: [f"{t}|", f"{t}!"], log2, write_count=2)
        f2.id = 'FC2'
        model.systems.add_system(f1)
        model.systems.add_system(f2)
        # base FileCollector.collect() collects nothing but still flushes (creates an empty file, loses nothing)
        p3 = os.path.join(d, 'three.csv')
        model.systems.add_system(FileCollector('base', model, p3))
        model.execute(7)
        if read_raw(p1) != ''.join(log1[:6]) or list(f1.records) != log1[6:]:
            return f"str-subclass records: {read_raw(p1)!r} / {f1.records!r}"
        if read_raw(p2) != ''.join(log2[:12]) or list(f2.records) != log2[12:]:
            return f"second collector: {read_raw(p2)!r} / {f2.records!r}"
        if read_raw(p3) != '':
            return "base FileCollector wrote something"
    return None


# --------------------------------------------------------------------------------------------------------------------
# 10. FileCollector: collect() raising half-way (an error path that half-completes) loses/duplicates nothing
# --------------------------------------------------------------------------------------------------------------------
def exp_file_error_path():
    with tempfile.TemporaryDirectory() as d:
        p = os.path.join(d, 'e.txt')
        model = Model()
        log = []

        class Boom(FileCollector):
            def collect(self):
                t = self.model.systems.timestep
                self.records.append(f"{t}a\n")
                log.append(f"{t}a\n")
                if t == 2:
                    raise ValueError("half-way")
                self.records.append(f"{t}b\n")
                log.append(f"{t}b\n")

        fc = Boom('FC', model, p, write_count=1)
        model.systems.add_system(fc)
        for _ in range(6):
            try:
                model.execute()
            except ValueError:
                model.systems.timestep += 1     # the user skips the failed timestep and carries on
            if read_raw(p) + ''.join(fc.records) != ''.join(log):
                return f"after error: file {read_raw(p)!r} held {fc.records!r} log {log!r}"
    return None


# --------------------------------------------------------------------------------------------------------------------
# 11. Records are independent of the hash seed (agent ids of mixed types, sets in results)
# --------------------------------------------------------------------------------------------------------------------
HASH_CHILD = r"""
from ECAgent.Core import Model, Agent
from ECAgent.Collectors import AgentCollector
m = Model()
for aid in ['b', 'a', 'timestep2', 'zz', 'c' * 30, 'ENVIRONMENT']:
    m.environment.add_agent(Agent(aid, m))
c = AgentCollector(m, lambda a: len(a.id) if a.id != 'zz' else None, compositeFunc=lambda ag: {'n': len(ag)},
                   includeTimstep=True, frequency=2)
m.systems.add_system(c)
m.execute(2)
m.environment.remove_agent('a')
m.execute(3)
print([list(r.items()) for r in c.records])
"""


def exp_hash_seed():
    outs = set()
    for hs in ['0', '1', '12345', 'random']:
        env = dict(os.environ, PYTHONHASHSEED=hs, PYTHONPATH=os.pathsep.join(sys.path))
        out = subprocess.run([sys.executable, '-c', HASH_CHILD], env=env, capture_output=True, text=True, timeout=120)
        if out.returncode != 0:
            return f"child failed: {out.stderr[-300:]}"
        outs.add(out.stdout)
    if len(outs) != 1:
        return f"records depend on the hash seed: {outs}"
    return None


# --------------------------------------------------------------------------------------------------------------------
# 12. Real multiprocessing: records of AgentCollectors come back whole and unduplicated from worker processes
# --------------------------------------------------------------------------------------------------------------------
MP_CHILD = r"""
from ECAgent.Core import Model, Agent, System
from ECAgent.Collectors import AgentCollector
from ECAgent.Batching import batch_run

class Grow(System):
    def execute(self):
        t = self.model.systems.timestep
        self.model.environment.add_agent(Agent(f"n{t}", self.model))
        if t % 3 == 2:
            self.model.environment.remove_agent(f"n{t-1}")

class M(Model):
    def __init__(self, k):
        super().__init__()
        self.systems.add_system(AgentCollector(self, lambda a: (a.id, k) if a.id != 'n0' else None,
                                               includeTimstep=True, frequency=2))
        self.systems.add_system(Grow('grow', self))

def agent_value(a):
    return a.id

def reference(k):
    m = M(k)
    while m.systems.timestep < 7:
        m.execute()
    return m.systems['AgentCollector'].records

if __name__ == '__main__':
    exp = sorted(repr(reference(k)) for k in [1, 2, 3, 4] * 2)
    got = batch_run(M, {'k': [1, 2, 3, 4]}, collectors='AgentCollector', processes=3, max_timesteps=7, repetitions=2)
    print('SAME' if sorted(repr(g) for g in got) == exp else f'DIFF {got!r}')
"""


def exp_multiprocessing():
    with tempfile.TemporaryDirectory() as d:
        script = os.path.join(d, 'mp_child.py')
        with open(script, 'w') as f:
            f.write(MP_CHILD)
        env = dict(os.environ, PYTHONPATH=os.pathsep.join(sys.path))
        try:
            out = subprocess.run([sys.executable, script], env=env, capture_output=True, text=True, timeout=180)
        except subprocess.TimeoutExpired:
            return "batch_run with processes=3 timed out"
        if out.returncode != 0 or out.stdout.strip() != 'SAME':
            return f"rc={out.returncode} out={out.stdout[-300:]!r} err={out.stderr[-300:]!r}"
    return None


# --------------------------------------------------------------------------------------------------------------------
# 13. Windows: exhaustive small start/end/frequency, also odd-but-legal numeric types
# --------------------------------------------------------------------------------------------------------------------
def exp_windows():
    try:
        import numpy
        np_freq = [numpy.int64(2)]
    except Exception:  # pragma: no cover
        np_freq = []
    for start in [0, 1, 3, True]:
        for end in [0, 2, 5, maxsize, 10 ** 30]:
            for freq in [1, 2, 3, 4, 2.0, True] + np_freq:
                model = Model()
                model.environment.add_agent(Agent('a', model))
                c = AgentCollector(model, lambda a: model.systems.timestep, start=start, end=end, frequency=freq)
                model.systems.add_system(c)
                model.execute(9)
                exp = [{'a': t} for t in range(9) if scheduled(t, start, end, freq)]
                if c.records != exp:
                    return f"start={start} end={end} freq={freq!r}: {c.records!r} != {exp!r}"
    return None


# --------------------------------------------------------------------------------------------------------------------
# 14. Subclass of AgentCollector / custom Collector through execute(); records list identity is stable
# --------------------------------------------------------------------------------------------------------------------
def exp_subclass():
    class Mine(AgentCollector):
        def __init__(self, model):
            super().__init__(model, self.per_agent, compositeFunc=self.comp, id='mine')

        def per_agent(self, a):
            return a.tag or None

        def comp(self, agents):
            return {'total': sum(a.tag for a in agents.values())} if agents else None

    model = Model()
    c = Mine(model)
    model.systems.add_system(c)
    lst = c.records
    model.execute()
    model.environment.add_agent(Agent('a', model, tag=0))
    model.environment.add_agent(Agent('b', model, tag=2))
    model.execute()
    if c.records != [{'b': 2, 'total': 2}] or c.records is not lst:
        return f"{c.records!r}"
    return None


# --------------------------------------------------------------------------------------------------------------------
# 15. NOTES (unspecified / out of scope, not counted)
# --------------------------------------------------------------------------------------------------------------------
def notes():
    # (a) a collector added by a system DURING timestep t whose window contains t does not collect at t
    model = Model()
    model.environment.add_agent(Agent('a', model))
    c = AgentCollector(model, lambda a: 1, includeTimstep=True)
    model.systems.add_system(FnSystem('adder', model,
                                      lambda m: m.systems.add_system(c) if m.systems.timestep == 1 else None))
    model.execute(3)
    if [r['timestep'] for r in c.records] == [2]:
        note("collector registered from inside timestep 1",
             "first record is for t=2 (execute_systems iterates a snapshot of the queue) - a deliberate scheduler "
             "decision; 'scheduled' is read as 'registered when the timestep began'. Not counted.")
    # (b) a per-agent function that itself adds/removes agents makes the dict iteration raise
    model = Model()
    model.environment.add_agent(Agent('a', model))
    c = AgentCollector(model, lambda a: model.environment.remove_agent(a.id))
    model.systems.add_system(c)
    try:
        model.execute()
        note("agentFunc mutating the population", "no error")
    except RuntimeError as e:
        note("agentFunc mutating the population",
             f"RuntimeError({e}); nothing is recorded, nothing is corrupted. The scope speaks of functions "
             f"'returning values or nothing', not of functions that change the population. Not counted.")


def main():
    run_random_agent_collector()
    for name, fn in [
        ("falsy / odd per-agent results are recorded by identity; falsy agents are visited", exp_falsy),
        ("composite data: copied into the record, None/{} add nothing", exp_composite),
        ("default priority: collector observes the state left by the systems for every insertion order",
         exp_default_order),
        ("environment replaced (void -> GridWorld -> LineWorld), agent leaving during a timestep",
         exp_environment_replaced),
        ("several collectors and several models alive at once", exp_several_models),
        ("collector removed / re-added inside a timestep; completed model", exp_remove_readd),
    ]:
        report(name, fn())
    run_file_random()
    for name, fn in [
        ("FileCollector: str-subclass records, two collectors, base-class collect()", exp_file_misc),
        ("FileCollector: collect() raising half-way loses / duplicates nothing", exp_file_error_path),
        ("hash-seed independence of record contents and order", exp_hash_seed),
        ("real multiprocessing (processes=3): records return whole from the workers", exp_multiprocessing),
        ("exhaustive small windows incl. bool / float / numpy / huge-int parameters", exp_windows),
        ("AgentCollector subclass with bound-method functions", exp_subclass),
    ]:
        report(name, fn())
    notes()
    print()
    print(f"{len(VIOLATIONS)} genuine violation(s) found" if VIOLATIONS else "no genuine violation found")
    return 1 if VIOLATIONS else 0


if __name__ == '__main__':
    sys.exit(main())
