"""Bug hunt for the property

    "A parameter list builds the exact Cartesian product, once each"

Run:  cd /tmp/wt-C14-h && PYTHONPATH=/tmp/wt-C14-h /venv/bin/python hunt.py

Uses the public API only (ParameterList(...), add_parameter, remove_parameter, build, batch_run).
Prints OK / VIOLATION / NOTE per experiment; exits 1 if at least one genuine, in-scope violation was found.
"""
import copy
import enum
import fractions
import decimal
import os
import pickle
import random
import subprocess
import sys
import textwrap

import numpy as np

import ECAgent
from ECAgent.Batching import ParameterList, batch_run
from ECAgent.Core import Model, Agent, Component, System
import ECAgent.Tags as Tags   # ("from ECAgent.Tags import X" is avoided on purpose)

PKG_ROOT = os.path.dirname(os.path.dirname(os.path.abspath(ECAgent.__file__)))

print(f"ECAgent under test: {ECAgent.__file__}\n")

VIOLATIONS = []     # genuine, in scope
BORDERLINE = []     # arguable scope; reported, not counted


def ok(name):
    print(f"[OK]         {name}")


def violation(name, text):
    VIOLATIONS.append(name)
    print(f"[VIOLATION]  {name}\n" + textwrap.indent(text.strip("\n"), "             "))


def borderline(name, text):
    BORDERLINE.append(name)
    print(f"[BORDERLINE] {name} (not counted)\n" + textwrap.indent(text.strip("\n"), "             "))


def note(name, text):
    print(f"[NOTE]       {name}\n" + textwrap.indent(text.strip("\n"), "             "))


def experiment(fn):
    try:
        fn()
    except Exception as e:  # an experiment that crashes is itself worth seeing
        violation(fn.__name__, f"experiment crashed: {type(e).__name__}: {e}")
    return fn


# ---------------------------------------------------------------------------------------------------------------------
# Independent oracle
# ---------------------------------------------------------------------------------------------------------------------
def as_values(v):
    """The declared values of one parameter, per the property: scalars and strings are single values."""
    if isinstance(v, str):
        return [v]
    if isinstance(v, (list, tuple, range)):
        return list(v)
    if isinstance(v, np.ndarray) and v.ndim > 0:
        return list(v)
    return [v]


def oracle(decl):
    """decl: list of (name, value) in declaration order. First declared varies slowest. Nested loops, no itertools."""
    combos = [[]]
    for name, v in decl:
        vals = as_values(v)
        combos = [c + [(name, x)] for c in combos for x in vals]
    return [dict(c) for c in combos]


def same_value(a, b):
    if isinstance(a, np.ndarray) or isinstance(b, np.ndarray):
        return type(a) is type(b) and a.shape == b.shape and bool(np.all(a == b))
    if a is b:
        return True
    if type(a) is not type(b):
        return False
    if isinstance(a, float) and isinstance(b, float):
        return repr(a) == repr(b)      # distinguishes -0.0 / 0.0, equates nan
    return a == b


def same_build(got, exp):
    if type(got) is not list or len(got) != len(exp):
        return False
    for g, e in zip(got, exp):
        if type(g) is not dict or list(g.keys()) != list(e.keys()):
            return False
        for k in e:
            if not same_value(g[k], e[k]):
                return False
    return True


def run_child(code, timeout=8, env_extra=None):
    """Runs code in a fresh interpreter against the same copy of the package, with a timeout and a memory cap."""
    prelude = ("import resource\n"
               "resource.setrlimit(resource.RLIMIT_AS, (3 * 10**9, 3 * 10**9))\n")
    env = dict(os.environ)
    env["PYTHONPATH"] = PKG_ROOT + os.pathsep + env.get("PYTHONPATH", "")
    if env_extra:
        env.update(env_extra)
    try:
        p = subprocess.run([sys.executable, "-c", prelude + textwrap.dedent(code)], env=env, timeout=timeout,
                           capture_output=True, text=True)
        return p.returncode, p.stdout, p.stderr
    except subprocess.TimeoutExpired:
        return "timeout", "", ""


# ---------------------------------------------------------------------------------------------------------------------
# 1. Randomised comparison with the oracle (constructor / incremental / add-remove history)
# ---------------------------------------------------------------------------------------------------------------------
@experiment
def exp01_random_product_vs_oracle():
    rng = random.Random(12345)

    def rand_value():
        k = rng.randrange(11)
        n = rng.choice([0, 1, 1, 2, 2, 3])
        pool = [0, 1, 1, -1, 2.5, None, True, False, "", "ab", 0.0, -0.0, 10**30, (1, 2), [3], b"x"]
        if k == 0:
            return [rng.choice(pool) for _ in range(n)]
        if k == 1:
            return tuple(rng.choice(pool) for _ in range(n))
        if k == 2:
            return range(n)
        if k == 3:
            return np.arange(n)
        if k == 4:
            return np.array([rng.choice([1.5, 1.5, 2.0]) for _ in range(n)])
        if k == 5:
            return rng.choice(["", "x", "hello", "a\r\nb", "é"])
        if k == 6:
            return np.arange(n * 2).reshape(n, 2)
        return rng.choice([0, 1, -3, 2.5, None, True, False, 0.0, -0.0, 10**40, float("nan"), 3 + 4j,
                           np.float64(0.0), np.int64(7), np.bool_(False), np.array(5)])

    bad = None
    for trial in range(1500):
        decl = []                      # model of the declaration
        names = [f"p{i}" for i in range(6)]
        via_ctor = rng.random() < 0.5
        if via_ctor:
            d = {}
            for nm in rng.sample(names, rng.randrange(0, 4)):
                d[nm] = rand_value()
            pl = ParameterList(d) if (d or rng.random() < 0.5) else ParameterList()
            decl = list(d.items())
            d.clear()                  # the source dict must not be aliased
        else:
            pl = ParameterList()
        for _ in range(rng.randrange(0, 7)):
            op = rng.random()
            nm = rng.choice(names)
            present = [n for n, _ in decl]
            if op < 0.6:
                v = rand_value()
                if nm in present:
                    try:
                        pl.add_parameter(nm, v)
                        bad = f"duplicate add of {nm!r} accepted"
                    except KeyError:
                        pass
                else:
                    pl.add_parameter(nm, v)
                    decl.append((nm, v))
            elif op < 0.9:
                if nm in present:
                    pl.remove_parameter(nm)
                    decl = [(n, v) for n, v in decl if n != nm]
                else:
                    try:
                        pl.remove_parameter(nm)
                        bad = f"removing unknown {nm!r} accepted"
                    except KeyError:
                        pass
            else:
                try:
                    pl.add_parameter(rng.choice([1, None, 2.0, ("a",), b"a", True]), 1)
                    bad = "non-string name accepted"
                except AttributeError:
                    pass
        exp = oracle(decl)
        got = pl.build()
        if not same_build(got, exp):
            bad = f"trial {trial}: decl={decl!r}\n got={got!r}\n exp={exp!r}"
        got2 = pl.build()
        if not same_build(got2, exp) or any(a is b for a, b in zip(got, got2)):
            bad = f"trial {trial}: second build differs or shares dictionaries"
        if len({id(x) for x in got}) != len(got):
            bad = f"trial {trial}: dictionaries within one build are shared"
        if bad:
            break
    if bad:
        violation("01 random declarations vs independent oracle", bad)
    else:
        ok("01 random declarations (ctor/incremental/add-remove history; list, tuple, range, ndarray 0-d/1-d/2-d, "
           "len 0/1, repeats, scalars, strings) equal an independent nested-loop oracle, 1500 trials")


# ---------------------------------------------------------------------------------------------------------------------
# 2. Edge shapes
# ---------------------------------------------------------------------------------------------------------------------
@experiment
def exp02_empty_and_degenerate():
    problems = []
    if ParameterList().build() != [{}]:
        problems.append(f"no parameters: {ParameterList().build()!r} (expected [{{}}], the one empty combination)")
    if ParameterList({}).build() != [{}]:
        problems.append("ParameterList({}) differs from ParameterList()")
    if ParameterList({"a": [1, 2], "b": [], "c": 3}).build() != []:
        problems.append("a length-0 collection does not give the empty product")
    for empty in ([], (), range(0), np.array([]), np.zeros((0, 3))):
        if ParameterList({"a": empty}).build() != []:
            problems.append(f"empty {type(empty).__name__} not an empty product")
    if ParameterList({"a": [7, 7, 7]}).build() != [{"a": 7}] * 3:
        problems.append("repeated values are not kept once per occurrence")
    got = ParameterList({"a": [1, 2], "b": "xy", "c": (True, None)}).build()
    exp = [{"a": 1, "b": "xy", "c": True}, {"a": 1, "b": "xy", "c": None},
           {"a": 2, "b": "xy", "c": True}, {"a": 2, "b": "xy", "c": None}]
    if got != exp:
        problems.append(f"ordering: {got!r}")
    big = ParameterList({f"k{i}": [0, 1] for i in range(12)}).build()
    if len(big) != 4096 or len({tuple(d.items()) for d in big}) != 4096:
        problems.append("12 binary parameters do not give 4096 distinct combinations")
    if [d["k0"] for d in big[:2048]] != [0] * 2048 or [d["k11"] for d in big[:4]] != [0, 1, 0, 1]:
        problems.append("first-declared parameter does not vary slowest")
    if problems:
        violation("02 empty / degenerate shapes", "\n".join(problems))
    else:
        ok("02 no parameters -> [{}]; any empty collection -> []; repeats kept; order; 2**12 combinations")


# ---------------------------------------------------------------------------------------------------------------------
# 3. Scalars keep their identity / type / sign
# ---------------------------------------------------------------------------------------------------------------------
class Colour(enum.Enum):
    RED = 1


class Falsy:
    def __bool__(self):
        return False

    def __len__(self):
        return 0


@experiment
def exp03_scalars_are_single_values():
    m = Model()
    scalars = [0, 1, -1, True, False, None, 0.0, -0.0, float("nan"), float("inf"), 10**100, -(2**70), 3 + 4j,
               fractions.Fraction(1, 3), decimal.Decimal("0.1"), Colour.RED, object(), len, int, Component, Model,
               m, Falsy(), Ellipsis, NotImplemented, np.float64(-0.0), np.int64(2**62), np.bool_(True),
               np.float32(1.5), np.datetime64("2020-01-01"), np.array(5), np.array("abc"), Tags.TagLibrary(),
               System("s", m), ParameterList({"q": [1, 2]}), lambda: 1]
    problems = []
    for s in scalars:
        got = ParameterList({"a": s, "b": [1, 2]}).build()
        if not (len(got) == 2 and all(d["a"] is s for d in got) and [d["b"] for d in got] == [1, 2]):
            problems.append(f"{s!r} ({type(s).__name__}): {got!r}")
    if problems:
        violation("03 scalars", "\n".join(problems))
    else:
        ok(f"03 {len(scalars)} kinds of non-string scalars (falsy, bool/int/float, -0.0, nan, huge ints, numpy scalars, "
           "0-d arrays, classes, falsy objects with __len__, Model, System, TagLibrary) are passed through by identity")


# ---------------------------------------------------------------------------------------------------------------------
# 4. Strings
# ---------------------------------------------------------------------------------------------------------------------
@experiment
def exp04_plain_strings():
    problems = []
    for s in ["", " ", "a", "abc", "a\r\nb", "é́", "x" * 10000, "\x00", "\ud800"]:
        got = ParameterList({"s": s}).build()
        if not (len(got) == 1 and got[0]["s"] is s):
            problems.append(repr(s)[:40])
    if problems:
        violation("04 plain str values", "not single values: " + ", ".join(problems))
    else:
        ok("04 plain str values ('', CRLF, unicode, NUL, lone surrogate, 10k chars) are single values")


class MyStr(str):
    pass


class Mode(str, enum.Enum):
    FAST = "fast"
    SLOW = "slow"


@experiment
def exp05_string_subclasses_and_numpy_strings():
    """Clause: 'scalars and strings treated as single values'. Hinted dimensions: str subclasses, numpy scalars."""
    cases = [
        ("np.str_('ab')  (what indexing a numpy string array gives: np.array(['ab','cd'])[0])", np.array(["ab", "cd"])[0]),
        ("np.str_('')", np.str_("")),
        ("class Mode(str, Enum) member Mode.FAST", Mode.FAST),
        ("class MyStr(str) instance MyStr('ab')", MyStr("ab")),
    ]
    if hasattr(enum, "StrEnum"):
        SE = enum.StrEnum("SE", {"FAST": "fast"})
        cases.append(("enum.StrEnum member", SE.FAST))
    bad = []
    for label, s in cases:
        assert isinstance(s, str)
        got = ParameterList({"mode": s, "n": [1, 2]}).build()
        exp_len = 2
        if not (len(got) == exp_len and all(d["mode"] is s for d in got)):
            shown = repr(got) if len(repr(got)) < 200 else repr(got)[:200] + "..."
            bad.append(f"{label}: isinstance(v, str) is True, but build() gave {len(got)} combinations "
                       f"(expected {exp_len}): {shown}")
    if bad:
        violation(
            "05 strings that are not exactly of type str are split into characters",
            "clause broken: 'scalars and strings treated as single values' / exact Cartesian product\n"
            "minimal repro: ParameterList({'mode': numpy.str_('ab')}).build()\n"
            f"   observed: {ParameterList({'mode': np.str_('ab')}).build()!r}\n"
            "   expected: [{'mode': 'ab'}]\n"
            "and the empty numpy string wipes out the whole product:\n"
            f"   ParameterList({{'mode': numpy.str_(''), 'n': [1, 2]}}).build() -> "
            f"{ParameterList({'mode': np.str_(''), 'n': [1, 2]}).build()!r} (expected 2 combinations)\n"
            + "\n".join(bad) +
            "\ncause: Batching.py line 128 tests `type(value) == str` instead of isinstance(value, str)")
    else:
        ok("05 str subclasses / numpy strings are single values")


@experiment
def exp06_string_subclass_through_batch_run():
    """Shows the consequence of 05 end to end, with 1 and with 2 real worker processes (timeout protected)."""
    code = """
        import enum, numpy as np
        from ECAgent.Batching import batch_run
        from ECAgent.Core import Model
        from ECAgent.Collectors import Collector

        class C(Collector):
            def __init__(self, model, mode):
                super().__init__('c', model)
                self.mode = mode
            def collect(self):
                self.records.append(self.mode)

        class M(Model):
            def __init__(self, mode):
                super().__init__()
                self.systems.add_system(C(self, mode))

        for procs in (1, 2):
            r = batch_run(M, {'mode': np.str_('ab')}, collectors='c', processes=procs, max_timesteps=1)
            print(procs, sorted(map(str, sum(r, []))))
    """
    rc, out, err = run_child(code, timeout=60)
    if rc == "timeout":
        note("06 batch_run with a numpy string", "timed out (not counted)")
    elif rc != 0:
        note("06 batch_run with a numpy string", "child failed (not counted): " + err.strip().splitlines()[-1])
    elif out.split() == ["1", "['ab']", "2", "['ab']"]:
        ok("06 batch_run({'mode': np.str_('ab')}) runs one model with mode='ab' (processes 1 and 2)")
    else:
        note("06 consequence of 05 in batch_run (same root cause, not counted separately)",
             "batch_run(M, {'mode': numpy.str_('ab')}, collectors='c', processes=p) ran these models "
             "(expected one model with mode 'ab'):\n" + out.strip())


# ---------------------------------------------------------------------------------------------------------------------
# 7. Package objects used as scalar values
# ---------------------------------------------------------------------------------------------------------------------
@experiment
def exp07_package_objects_as_scalars():
    """Objects of the package that define __getitem__ but no __iter__ (Agent instances, Agent classes, SystemManager)
    are 'iterable' through the legacy sequence protocol; their __getitem__ returns None for unknown keys instead of
    raising IndexError, so iteration never ends."""
    cases = {
        "an Agent class (e.g. which agent type to spawn): ParameterList({'agent_cls': Agent}).build()":
            "from ECAgent.Core import Agent; v = Agent",
        "an Agent instance: ParameterList({'a': Agent('x', Model())}).build()":
            "from ECAgent.Core import Agent, Model; v = Agent('x', Model())",
        "a SystemManager: ParameterList({'a': Model().systems}).build()":
            "from ECAgent.Core import Model; v = Model().systems",
    }
    hung = []
    for label, setup in cases.items():
        code = f"""
            from ECAgent.Batching import ParameterList
            {setup}
            import collections.abc
            assert not isinstance(v, collections.abc.Iterable)
            r = ParameterList({{'a': v}}).build()
            print('DONE', len(r), r[0]['a'] is v if r else None)
        """
        rc, out, err = run_child(code, timeout=6)
        if rc == "timeout":
            hung.append(f"{label}\n     -> build() did not return within 6 s (endless loop, memory grows until killed)")
        elif rc != 0:
            last = err.strip().splitlines()[-1] if err.strip() else f"exit code {rc}"
            hung.append(f"{label}\n     -> build() failed: {last}")
        elif out.split() != ["DONE", "1", "True"]:
            hung.append(f"{label}\n     -> {out.strip()}")
    if hung:
        borderline(
            "07 package objects with __getitem__ used as single values make build() hang",
            "clause: 'scalars ... treated as single values'. These objects are not collections.abc.Iterable and are "
            "not collections,\nbut whether the property's word 'scalar' covers arbitrary objects is arguable, so this "
            "is reported but not counted.\nexpected [{'a': <the object>}] (as for Component classes, Systems, Models, "
            "TagLibraries), observed:\n" + "\n".join(hung) +
            "\ncause: Batching.py line 132 `for v in value` falls back to value[0], value[1], ... and "
            "Agent.__getitem__/\n_MetaAgent.__getitem__/SystemManager.__getitem__ return None instead of raising "
            "IndexError.")
    else:
        ok("07 package objects (Agent class, Agent instance, SystemManager) are single values")


@experiment
def exp08_bytes_like_values():
    got = ParameterList({"a": b"xy"}).build()
    if got == [{"a": b"xy"}]:
        ok("08 bytes is a single value")
    else:
        borderline("08 bytes / bytearray / numpy.bytes_ values are split into integers",
                   f"ParameterList({{'a': b'xy'}}).build() -> {got!r}\n"
                   "The property only names 'strings'; bytes is not a str, so this is unspecified rather than broken.")


# ---------------------------------------------------------------------------------------------------------------------
# 9. Invalid declarations
# ---------------------------------------------------------------------------------------------------------------------
@experiment
def exp09_invalid_declarations_have_no_effect():
    problems = []
    pl = ParameterList({"a": [1, 2], "b": "s"})
    before = pl.build()
    for bad_name in [1, 0, None, True, 2.5, b"a", ("a",), frozenset(), object(), np.int64(1), ["a"], {"a": 1}]:
        try:
            pl.add_parameter(bad_name, [9, 9])
            problems.append(f"add_parameter({bad_name!r}) accepted")
        except AttributeError:
            pass
        except Exception as e:
            problems.append(f"add_parameter({bad_name!r}) raised {type(e).__name__} instead of AttributeError")
        if pl.build() != before:
            problems.append(f"add_parameter({bad_name!r}) had an effect")
    for dup in ["a", "b"]:
        try:
            pl.add_parameter(dup, [7, 8, 9])
            problems.append(f"duplicate {dup!r} accepted")
        except KeyError:
            pass
        if pl.build() != before:
            problems.append(f"duplicate {dup!r} had an effect")
    for unk in ["zz", "", "A", "a ", None, 1, ("a",), b"a"]:
        try:
            pl.remove_parameter(unk)
            problems.append(f"remove_parameter({unk!r}) accepted")
        except KeyError:
            pass
        if pl.build() != before:
            problems.append(f"remove_parameter({unk!r}) had an effect")
    try:
        pl.remove_parameter(["a"])      # unhashable
        problems.append("remove_parameter(['a']) accepted")
    except (KeyError, TypeError):
        pass
    if pl.build() != before:
        problems.append("remove_parameter(['a']) had an effect")
    for bad_dict in [{1: 2}, {"a": 1, 2: 3}, {None: 1}, {("a",): 1}, {b"a": 1}, {True: 1}]:
        try:
            ParameterList(bad_dict)
            problems.append(f"ParameterList({bad_dict!r}) accepted")
        except AttributeError:
            pass
    # the duplicate check must also work for falsy declared values and for names declared through the constructor
    pl2 = ParameterList({"z": 0, "e": [], "n": None})
    for nm in ["z", "e", "n"]:
        try:
            pl2.add_parameter(nm, 5)
            problems.append(f"duplicate of falsy-valued {nm!r} accepted")
        except KeyError:
            pass
    if problems:
        violation("09 invalid declarations", "\n".join(problems))
    else:
        ok("09 non-string names (int, bool, None, bytes, tuple, numpy int, unhashable), duplicate names (incl. "
           "falsy-valued ones) and unknown removals are rejected and leave build() unchanged")


@experiment
def exp10_str_subclass_names():
    res = []
    for nm in (MyStr("k"), np.str_("k"), Mode.FAST):
        try:
            ParameterList().add_parameter(nm, 1)
            res.append("accepted")
        except AttributeError:
            res.append("rejected")
    note("10 names that are str subclasses (MyStr, numpy.str_, str-Enum)",
         f"{res} - they are rejected like non-strings, without effect. The property does not say they must be "
         "accepted; not counted.")


# ---------------------------------------------------------------------------------------------------------------------
# 11. Histories / ordering
# ---------------------------------------------------------------------------------------------------------------------
@experiment
def exp11_readd_moves_to_end_and_odd_names():
    problems = []
    pl = ParameterList({"a": [1, 2], "b": [3, 4]})
    pl.remove_parameter("a")
    pl.add_parameter("a", [5, 6])
    if pl.build() != [{"b": 3, "a": 5}, {"b": 3, "a": 6}, {"b": 4, "a": 5}, {"b": 4, "a": 6}] or \
            list(pl.build()[0]) != ["b", "a"]:
        problems.append("re-added parameter is not the last-declared one")
    odd = ["", " ", "a\r\n", "a\n", "é", "é", "class", "self", "__init__", "A", "a", "x" * 500, "\x00"]
    pl = ParameterList()
    for i, nm in enumerate(odd):
        pl.add_parameter(nm, i)
    got = pl.build()
    if len(got) != 1 or list(got[0].items()) != list(zip(odd, range(len(odd)))):
        problems.append("odd names are merged / reordered")
    for nm in odd:
        pl.remove_parameter(nm)
    if pl.build() != [{}]:
        problems.append("removing everything does not return to the empty declaration")
    if problems:
        violation("11 histories and odd names", "\n".join(problems))
    else:
        ok("11 remove + re-add makes the parameter last-declared; '', CRLF, NFC/NFD, keywords, dunder names stay "
           "distinct; removing all -> [{}]")


# ---------------------------------------------------------------------------------------------------------------------
# 12. Repeatability, independence, declaration untouched
# ---------------------------------------------------------------------------------------------------------------------
@experiment
def exp12_repeatable_independent_unchanged():
    problems = []
    lst, tup, rng, arr = [1, 2], (3,), range(2), np.array([1.0, 2.0])
    src = {"l": lst, "t": tup, "r": rng, "n": arr, "s": "str", "x": 0}
    pl = ParameterList(src)
    first = pl.build()
    snapshot = copy.deepcopy(first)
    for d in first:                      # vandalise the result
        d["l"] = "changed"
        d["extra"] = 1
        del d["x"]
    first.clear()
    second = pl.build()
    if not same_build(second, snapshot):
        problems.append("changing a built result changes the next build")
    if lst != [1, 2] or tup != (3,) or rng != range(2) or arr.tolist() != [1.0, 2.0] or list(src) != list("ltrnsx"):
        problems.append("build changed the declared objects")
    src["new"] = 1
    del src["l"]
    if not same_build(pl.build(), snapshot):
        problems.append("the constructor's dict is aliased by the ParameterList")
    a, b = ParameterList({"a": [1, 2]}), ParameterList()
    b.add_parameter("b", 1)
    if a.build() != [{"a": 1}, {"a": 2}] or b.build() != [{"b": 1}] or ParameterList().build() != [{}]:
        problems.append("several ParameterLists alive at once share state")
    many = [pl.build() for _ in range(50)]
    if not all(same_build(x, snapshot) for x in many):
        problems.append("build not repeatable over 50 calls")
    if problems:
        violation("12 repeatability / independence", "\n".join(problems))
    else:
        ok("12 build is repeatable (50x), results are fresh dicts, vandalising them or the constructor's dict has no "
           "effect, declared list/tuple/range/ndarray untouched, instances do not share state")
    inner = [1]
    pl = ParameterList({"v": [inner]})
    pl.build()[0]["v"].append(2)
    note("12b shallow independence",
         f"the value objects themselves are shared, not copied: after build()[0]['v'].append(2) the next build gives "
         f"{pl.build()!r}. The property only promises independent dictionaries; not counted.")


@experiment
def exp13_subclass_copy_pickle():
    problems = []

    class MyList(ParameterList):
        pass

    decl = {"a": [1, 2], "s": "xy", "r": range(2), "n": np.array([1, 2]), "z": 0}
    exp = ParameterList(decl).build()
    for label, obj in [("subclass", MyList(decl)), ("deepcopy", copy.deepcopy(ParameterList(decl))),
                       ("copy", copy.copy(ParameterList(decl))),
                       ("pickle", pickle.loads(pickle.dumps(ParameterList(decl))))]:
        if not same_build(obj.build(), exp):
            problems.append(label)
    if problems:
        violation("13 subclass / copy / pickle", ", ".join(problems) + " build differently")
    else:
        ok("13 a ParameterList subclass, copy, deepcopy and pickle round trip build the same product")
    try:
        batch_run(Model, MyList({"seed": [1]}), max_timesteps=0)
        sub = "accepted"
    except Exception as e:
        sub = f"{type(e).__name__}: {e}"
    note("13b batch_run with a ParameterList subclass instance",
         f"{sub} (batch_run tests `type(parameters) == ParameterList`; this is about batch_run, not about building a "
         "parameter list, so it is not counted here)")


@experiment
def exp14_mapping_kinds_for_constructor():
    import collections
    import types
    problems = []
    base = [("b", [1, 2]), ("a", "s"), ("c", 0)]
    exp = oracle(base)
    dd = collections.defaultdict(list)
    dd.update(base)
    for label, m in [("OrderedDict", collections.OrderedDict(base)), ("defaultdict", dd),
                     ("MappingProxyType", types.MappingProxyType(dict(base))),
                     ("ChainMap", collections.ChainMap(dict(base)))]:
        if not same_build(ParameterList(m).build(), exp):
            problems.append(label)
    if len(dd) != 3:
        problems.append("constructor grew the defaultdict")
    if problems:
        violation("14 other mappings in the constructor", ", ".join(problems))
    else:
        ok("14 OrderedDict / defaultdict / MappingProxyType / ChainMap declarations build the same product")


# ---------------------------------------------------------------------------------------------------------------------
# 15. Other processes: hash seeds, real multiprocessing
# ---------------------------------------------------------------------------------------------------------------------
@experiment
def exp15_hash_seed_independence():
    code = """
        from ECAgent.Batching import ParameterList
        pl = ParameterList({'zeta': ['b', 'a'], 'alpha': 'str', 'mid': (1.5, None)})
        pl.add_parameter('x', range(2)); pl.remove_parameter('zeta'); pl.add_parameter('zeta', ['q', 'p'])
        print(pl.build())
    """
    outs = set()
    for seed in ("0", "1", "424242", "random"):
        rc, out, err = run_child(code, timeout=30, env_extra={"PYTHONHASHSEED": seed})
        outs.add((rc, out))
    if len(outs) == 1 and next(iter(outs))[0] == 0:
        ok("15 same build under PYTHONHASHSEED 0 / 1 / 424242 / random")
    else:
        violation("15 hash seed dependence", repr(outs))


@experiment
def exp16_build_in_worker_processes():
    code = """
        import multiprocessing as mp
        from ECAgent.Batching import ParameterList

        def work(pl):
            return pl.build()

        if __name__ == '__main__':
            pl = ParameterList({'a': [1, 2], 's': 'xy', 'r': range(3), 'z': 0})
            with mp.Pool(3) as pool:
                res = pool.map_async(work, [pl] * 6).get(timeout=40)
            print(all(r == pl.build() for r in res), len(res[0]))
    """
    rc, out, err = run_child(code, timeout=60)
    if rc == 0 and out.split() == ["True", "6"]:
        ok("16 a ParameterList sent to 3 real worker processes builds the same product there")
    elif rc == "timeout":
        note("16 multiprocessing", "timed out (environment), not counted")
    else:
        violation("16 build in worker processes", out + err[-400:])


@experiment
def exp17_build_from_inside_a_running_timestep():
    seen = []

    class S(System):
        def __init__(self, model, pl):
            super().__init__("s", model)
            self.pl = pl

        def execute(self):
            self.pl.add_parameter(f"t{self.model.systems.timestep}", [0, 1])
            seen.append(len(self.pl.build()))

    m = Model()
    pl = ParameterList({"a": [1, 2, 3]})
    m.systems.add_system(S(m, pl))
    for _ in range(3):
        m.execute()
    m.complete()
    if seen == [6, 12, 24] and len(pl.build()) == 24:
        ok("17 declaring and building from inside a running timestep / after the model completed behaves the same")
    else:
        violation("17 build inside a timestep", repr(seen))


if __name__ == "__main__":
    print()
    print(f"genuine violations: {len(VIOLATIONS)}   borderline (not counted): {len(BORDERLINE)}")
    for v in VIOLATIONS:
        print("  VIOLATION:", v)
    for b in BORDERLINE:
        print("  borderline:", b)
    sys.exit(1 if VIOLATIONS else 0)
