"""Second-pass bug hunt for the property

    "A parameter list builds the exact Cartesian product, once each"

Run with:   cd /tmp/wt-C14-i && PYTHONPATH=/tmp/wt-C14-i /venv/bin/python hunt.py

Public API only (ECAgent.Batching.ParameterList and, for the process angle, batch_run / grid_search).  Every experiment
prints OK, VIOLATION (counted: inside the stated scope) or NOTE (observed, but outside the stated scope / unspecified /
already decided - not counted).  Exit status 1 iff at least one VIOLATION.
"""
import copy
import decimal
import fractions
import hashlib
import itertools
import os
import pickle
import random
import subprocess
import sys

import numpy as np

from ECAgent.Batching import ParameterList, batch_run, grid_search, ScoreMode
from ECAgent.Collectors import Collector
from ECAgent.Core import Model, Agent, System
from ECAgent.Environments import GridWorld, LineWorld

VIOLATIONS = []
NOTES = []
EXPERIMENTS = []


def experiment(title):
    def deco(fn):
        EXPERIMENTS.append((title, fn))  # run from __main__ only (the script re-invokes itself for some angles)
        return fn
    return deco


def run_experiments():
    for title, fn in EXPERIMENTS:
        try:
            problems = fn() or []
        except Exception as e:  # an experiment that blows up is reported, never silently skipped
            problems = [f'experiment crashed: {type(e).__name__}: {e}']
        if problems:
            print(f'VIOLATION  {title}')
            for p in problems[:6]:
                print(f'           - {p}')
            VIOLATIONS.append((title, problems))
        else:
            print(f'OK         {title}')


def note(title, text):
    print(f'NOTE       {title}\n           - {text}')
    NOTES.append((title, text))


# ---------------------------------------------------------------------------------------------------------------------
# reference model
# ---------------------------------------------------------------------------------------------------------------------
COLLECTION_TYPES = (list, tuple, range, np.ndarray)


def is_collection(value):
    if isinstance(value, np.ndarray):
        return value.ndim > 0
    return isinstance(value, COLLECTION_TYPES)


def ref_build(declaration):
    """declaration: list of (name, value) in declaration order.  First declared varies slowest."""
    combos = [[]]
    for name, value in declaration:
        values = list(value) if is_collection(value) else [value]
        combos = [c + [(name, v)] for c in combos for v in values]
    return combos


def same(a, b):
    """Same declared value: identical object, or (numpy hands out fresh scalars / rows) equal with the same type."""
    if a is b:
        return True
    if type(a) is not type(b):
        return False
    if isinstance(a, np.ndarray):
        return a.shape == b.shape and a.dtype == b.dtype and bool(np.array_equal(a, b, equal_nan=a.dtype.kind in 'fc'))
    try:
        if a != a and b != b:
            return True
        if isinstance(a, (float, np.floating)) and a == 0 and b == 0:
            return bool(np.signbit(a) == np.signbit(b))
        # range() and numpy hand out fresh int / scalar objects on every iteration: equal value of the same type
        return isinstance(a, (int, np.generic)) and bool(a == b)
    except Exception:
        return False


def check_build(built, declaration, where):
    want = ref_build(declaration)
    names = [n for n, _ in declaration]
    if type(built) is not list:
        return [f'{where}: build() returned {type(built).__name__}']
    if len(built) != len(want):
        return [f'{where}: {len(built)} combinations, expected {len(want)}']
    for i, (got, exp) in enumerate(zip(built, want)):
        if type(got) is not dict:
            return [f'{where}: combination {i} is a {type(got).__name__}']
        if list(got.keys()) != names:
            return [f'{where}: combination {i} has names {list(got.keys())}, expected {names}']
        for name, v in exp:
            if not same(got[name], v):
                return [f'{where}: combination {i} has {name}={got[name]!r}, expected {v!r} (order / value wrong)']
    if len({id(d) for d in built}) != len(built):
        return [f'{where}: the same dict object occurs twice']
    return []


class _S(str):
    pass


class _FalsyLen:
    """scalar object with __len__ == 0 (and therefore falsy) but no __iter__"""
    def __len__(self):
        return 0


class _FalsyBool:
    def __bool__(self):
        return False


class _GetItemOnly:
    def __getitem__(self, i):
        return i  # never raises IndexError

    def __len__(self):
        return 3


def _func(x):
    return x


_OBJ = object()
SCALARS = [0, 1, -1, True, False, None, 0.0, -0.0, 1.5, float('nan'), float('inf'), 2 ** 80, -2 ** 63, 1 + 2j,
           decimal.Decimal('0.1'), fractions.Fraction(1, 3), _OBJ, _func, len, int, Model, Agent, GridWorld,
           np.int64(0), np.int8(-1), np.float64(-0.0), np.float32(1.5), np.bool_(False), np.uint64(2 ** 64 - 1),
           np.array(5), np.array('txt'), Ellipsis, NotImplemented, _FalsyLen(), _FalsyBool(), _GetItemOnly(),
           ScoreMode.MIN, slice(1, 2)]
STRINGS = ['', 'a', 'abc', ' ', 'a,b', '0', 'None', 'ǘ', 'line\r\nbreak', _S('sub'), _S(''), np.str_('npstr'),
           np.str_('')]
COLLECTIONS = [
    [], [0], [1, 2], [1, 2, 3], [1, 1], [0, 0, 0], [None], [None, None], [False, 0, 0.0, -0.0, ''], [True, 1, 1.0],
    ['a'], ['ab', 'cd'], ['', ''], [_S('x'), 'x'], [[1, 2], [3]], [[], []], [()], [(1, 2), (1, 2)], [{}], [{'k': 1}, {}],
    [2 ** 80, -2 ** 80], [float('nan'), float('nan')], [_OBJ, _OBJ], [Model, Agent], [np.int64(1), 1],
    (), (0,), (1, 2), ('a', 'b', 'a'), ((1, 2), (3, 4)), (None,), ([],),
    range(0), range(1), range(3), range(5, 0, -2), range(-1, 1), range(10 ** 12, 10 ** 12 + 2),
    np.array([]), np.array([7]), np.array([1, 2, 3]), np.array([1, 1]), np.array([0.0, -0.0, np.nan]),
    np.array(['a', 'bb', '']), np.array([True, False]), np.array([1, None, 'x'], dtype=object),
    np.array([[1, 2], [3, 4]]), np.zeros((0, 3)), np.zeros((2, 0)), np.arange(6)[::2], np.array([2 ** 63], dtype=np.uint64),
    np.array([1.5], dtype=np.float16),
]
ALL_VALUES = SCALARS + STRINGS + COLLECTIONS


def declare(declaration, how):
    """how: 'ctor' (all through the constructor), 'add' (all incrementally) or an int k (first k through the ctor)."""
    if how == 'ctor':
        return ParameterList(dict(declaration))
    k = 0 if how == 'add' else how
    pl = ParameterList(dict(declaration[:k])) if k else ParameterList()
    for name, value in declaration[k:]:
        pl.add_parameter(name, value)
    return pl


# ---------------------------------------------------------------------------------------------------------------------
@experiment('01 zero and one parameter: every scalar, string and collection kind, constructor and incremental')
def _():
    bad = []
    for how in ('ctor', 'add'):
        pl = ParameterList() if how == 'add' else ParameterList({})
        if pl.build() != [{}] or ParameterList(None).build() != [{}]:
            bad.append(f'no parameters ({how}): build() == {pl.build()!r}, expected [{{}}] (one empty combination)')
        for value in ALL_VALUES:
            decl = [('p', value)]
            bad += check_build(declare(decl, how).build(), decl, f'{how} p={value!r}')
    return bad


@experiment('02 two and three parameters: all ordered pairs of value kinds, sampled triples, mixed ctor/incremental')
def _():
    bad = []
    rng = random.Random(14)
    for a, b in itertools.product(ALL_VALUES, repeat=2):
        decl = [('first', a), ('second', b)]
        how = rng.choice(['ctor', 'add', 1])
        bad += check_build(declare(decl, how).build(), decl, f'{how} {decl!r}')
        if len(bad) > 5:
            return bad
    for _ in range(4000):
        decl = list(zip(['z', 'a', 'm'], rng.sample(ALL_VALUES, 3)))  # names deliberately not in alphabetical order
        how = rng.choice(['ctor', 'add', 1, 2])
        bad += check_build(declare(decl, how).build(), decl, f'{how} {decl!r}')
        if len(bad) > 5:
            return bad
    return bad


@experiment('03 many parameters: 6 x 5 values (15625 combinations), 12 single-valued, 40 parameters with one empty')
def _():
    bad = []
    decl = [(f'p{i}', [f'{i}{j}' for j in range(5)]) for i in range(6)]
    built = declare(decl, 'add').build()
    bad += check_build(built, decl, '6x5')
    if len({tuple(d.values()) for d in built}) != 5 ** 6:
        bad.append('6x5: combinations are not all different')
    if [tuple(d.values()) for d in built] != sorted(tuple(d.values()) for d in built):
        bad.append('6x5: not in lexicographic order (first declared slowest)')
    decl = [(f'q{i}', v) for i, v in enumerate([1, 'two', (3,), [4], range(5, 6), np.array([6]), None, 0, '', [None],
                                                ('',), 2 ** 70])]
    bad += check_build(declare(decl, 'ctor').build(), decl, '12 single-valued')
    for empty_at in (0, 17, 39):
        decl = [(f'r{i}', [] if i == empty_at else [1, 2]) for i in range(40)]
        if declare(decl, 'add').build() != []:
            bad.append(f'40 parameters with an empty one at {empty_at}: not the empty product')
    return bad


@experiment('04 build is repeatable, returns independent dicts, never changes the declaration')
def _():
    bad = []
    rng = random.Random(4)
    for trial in range(300):
        k = rng.randrange(0, 5)
        values = [v.copy() if isinstance(v, (list, np.ndarray)) else v for v in rng.sample(COLLECTIONS + SCALARS
                                                                                          + STRINGS, k)]
        decl = [(f'n{i}', v) for i, v in enumerate(values)]
        frozen = [v.copy() if isinstance(v, (list, np.ndarray)) else v for v in values]  # shallow: same elements
        caller_dict = dict(decl)
        pl = ParameterList(caller_dict) if trial % 2 else declare(decl, 'add')
        caller_dict['later'] = [1, 2]          # the caller's dict is not the declaration
        caller_dict.pop('n0', None)
        b1 = pl.build()
        bad += check_build(b1, decl, f'first build {decl!r}')
        # vandalise everything that was returned
        for d in b1:
            for key in list(d):
                d[key] = 'overwritten'
            d['extra'] = 1
            if rng.random() < 0.5:
                d.clear()
        b1.clear()
        b2 = pl.build()
        b3 = pl.build()
        bad += check_build(b2, decl, f'second build {decl!r}')
        bad += check_build(b3, decl, f'third build {decl!r}')
        if {id(d) for d in b2} & {id(d) for d in b3}:
            bad.append('two builds share dict objects')
        if b2 and b2[0]:
            marker = object()
            b2[0][next(iter(b2[0]))] = marker
            if any(v is marker for d in b2[1:] + b3 for v in d.values()):
                bad.append('dicts of one build are not independent')
        # the declared value objects were neither replaced nor modified
        for (name, v), f in zip(decl, frozen):
            if isinstance(v, np.ndarray):
                if not same(v, f):
                    bad.append(f'declared array {name} changed: {v!r}')
            elif isinstance(v, list):
                if len(v) != len(f) or not all(x is y for x, y in zip(v, f)):
                    bad.append(f'declared list {name} changed: {v!r} vs {f!r}')
        if len(bad) > 5:
            break
    return bad


@experiment('05 invalid declarations are rejected without effect (non-string / duplicate name, removing unknown name)')
def _():
    bad = []
    decl = [('a', [1, 2]), ('b', 'str'), ('c', (3, 4))]
    non_strings = [0, 1, None, True, 1.5, b'a', ('a',), frozenset(), int, _OBJ, float('nan'), np.int64(1), b'', ()]
    for how in ('ctor', 'add', 2):
        pl = declare(decl, how)
        for name in non_strings:
            try:
                pl.add_parameter(name, [9, 9])
                bad.append(f'add_parameter({name!r}, ...) accepted')
            except AttributeError:
                pass
            except Exception as e:
                bad.append(f'add_parameter({name!r}, ...) raised {type(e).__name__}')
            bad += check_build(pl.build(), decl, f'after rejected name {name!r}')
        for name in ([], {}, set(), ['a']):  # unhashable non-strings
            try:
                pl.add_parameter(name, 1)
                bad.append(f'add_parameter({name!r}, ...) accepted')
            except (AttributeError, TypeError):
                pass
            bad += check_build(pl.build(), decl, f'after rejected name {name!r}')
        for name, _ in decl:
            for value in (99, [], [7, 8, 9], 'other', None):
                try:
                    pl.add_parameter(name, value)
                    bad.append(f'duplicate add_parameter({name!r}, {value!r}) accepted')
                except KeyError:
                    pass
                bad += check_build(pl.build(), decl, f'after duplicate {name!r}')
        for name in ['x', 'A', 'a ', '', 'ab', None, 0, 1, True, ('a',), b'a', float('nan'), _OBJ, int]:
            try:
                pl.remove_parameter(name)
                bad.append(f'remove_parameter({name!r}) accepted')
            except KeyError:
                pass
            except Exception as e:
                bad.append(f'remove_parameter({name!r}) raised {type(e).__name__}')
            bad += check_build(pl.build(), decl, f'after rejected removal {name!r}')
        for name in ([], {}, ['a']):
            try:
                pl.remove_parameter(name)
                bad.append(f'remove_parameter({name!r}) accepted')
            except (KeyError, TypeError):
                pass
            bad += check_build(pl.build(), decl, f'after rejected removal {name!r}')
        pl.remove_parameter('b')
        try:
            pl.remove_parameter('b')
            bad.append('second removal accepted')
        except KeyError:
            pass
        bad += check_build(pl.build(), [decl[0], decl[2]], 'after removing b')
    # constructor: a non-string key anywhere rejects the whole declaration
    for keys in ([0], ['a', 0], [0, 'a'], ['a', None, 'b'], ['a', b'b'], [('a',)], [True]):
        try:
            ParameterList({k: [1, 2] for k in keys})
            bad.append(f'ParameterList with keys {keys!r} accepted')
        except AttributeError:
            pass
        except Exception as e:
            bad.append(f'ParameterList with keys {keys!r} raised {type(e).__name__}')
    # str-subclass names: either a name like any other, or rejected without effect - both are consistent
    for name in (_S('sub'), np.str_('np')):
        pl = declare(decl, 'add')
        try:
            pl.add_parameter(name, [5, 6])
            bad += check_build(pl.build(), decl + [(name, [5, 6])], f'str-subclass name {name!r}')
        except AttributeError:
            bad += check_build(pl.build(), decl, f'rejected str-subclass name {name!r}')
        pl.remove_parameter(_S('a'))  # a str subclass equal to a declared name names that parameter
        rest = [d for d in decl if d[0] != 'a'] + ([(name, [5, 6])] if len(pl.build()[0]) == 3 else [])
        bad += check_build(pl.build(), rest, 'after removal through a str-subclass name')
    return bad


@experiment('06 random histories of add / remove / rejected operations / builds against a reference model')
def _():
    bad = []
    rng = random.Random(6)
    names = ['a', 'b', 'c', 'A', '', ' ', 'a ', 'records', 'score', 'self', 'model', 'ü', 'x' * 200]
    small = [v for v in ALL_VALUES if not is_collection(v) or len(v) <= 3]
    for trial in range(300):
        k = rng.randrange(0, 3)
        decl = [(n, rng.choice(small)) for n in rng.sample(names, k)]
        pl = declare(decl, rng.choice(['ctor', 'add']))
        for step in range(30):
            r = rng.random()
            name = rng.choice(names)
            known = [n for n, _ in decl]
            if r < 0.4:
                value = rng.choice(small)
                if name in known:
                    try:
                        pl.add_parameter(name, value)
                        bad.append(f'duplicate {name!r} accepted')
                    except KeyError:
                        pass
                else:
                    pl.add_parameter(name, value)
                    decl.append((name, value))
            elif r < 0.75:
                if name in known:
                    pl.remove_parameter(name)
                    decl = [d for d in decl if d[0] != name]
                else:
                    try:
                        pl.remove_parameter(name)
                        bad.append(f'unknown {name!r} removed')
                    except KeyError:
                        pass
            elif r < 0.85:
                try:
                    pl.add_parameter(rng.choice([0, None, b'a', ('a',), 1.0]), rng.choice(small))
                    bad.append('non-string name accepted')
                except AttributeError:
                    pass
            size = 1
            for _, v in decl:
                size *= len(list(v)) if is_collection(v) else 1
            if size <= 400:
                bad += check_build(pl.build(), decl, f'trial {trial} step {step} {decl!r}')
            if bad:
                return bad
    return bad


@experiment('07 several lists alive at once, shared value objects, subclass, copies and pickles, use inside a timestep')
def _():
    bad = []
    shared = [1, 2, 3]
    arr = np.array([0.5, 1.5])
    p1 = ParameterList({'x': shared, 'y': arr})
    p2 = ParameterList()
    p2.add_parameter('x', shared)
    p2.add_parameter('x2', shared)          # one object declared under two names
    p3 = ParameterList()
    d1 = [('x', shared), ('y', arr)]
    d2 = [('x', shared), ('x2', shared)]
    bad += check_build(p1.build(), d1, 'p1') + check_build(p2.build(), d2, 'p2') + check_build(p3.build(), [], 'p3')
    p1.remove_parameter('x')
    p3.add_parameter('only', 'here')
    bad += check_build(p1.build(), d1[1:], 'p1 after its removal')
    bad += check_build(p2.build(), d2, 'p2 after p1 changed')
    bad += check_build(p3.build(), [('only', 'here')], 'p3')
    if ParameterList().build() != [{}]:
        bad.append('a fresh ParameterList is not empty (state shared between instances)')

    class MyList(ParameterList):
        pass
    sub = MyList({'k': (1, 2)})
    sub.add_parameter('s', 'txt')
    bad += check_build(sub.build(), [('k', (1, 2)), ('s', 'txt')], 'subclass')
    for clone in (copy.copy(p2), copy.deepcopy(p2), pickle.loads(pickle.dumps(p2))):
        if clone.build() != p2.build():
            bad.append('copy / pickle builds something else')
    clone = copy.deepcopy(p2)
    clone.remove_parameter('x2')
    bad += check_build(p2.build(), d2, 'original after its deep copy changed')

    class Builder(System):
        def __init__(self, model):
            super().__init__('builder', model)
            self.seen = []

        def execute(self):
            self.seen.append(p2.build())
            if self.model.systems.timestep == 2:
                self.model.complete()
    m = Model()
    s = Builder(m)
    m.systems.add_system(s)
    m.execute(5)
    for b in s.seen + [p2.build()]:  # inside running timesteps and on a completed model
        bad += check_build(b, d2, 'inside a timestep / completed model')
    if len(s.seen) != 3:
        bad.append(f'system ran {len(s.seen)} times')
    return bad


# ---------------------------------------------------------------------------------------------------------------------
# hash seed / processes
# ---------------------------------------------------------------------------------------------------------------------
def _digest():
    pl = ParameterList({'names': ['b', 'a', 'c'], 's': 'text', 'n': (3, 1, 2)})
    pl.add_parameter('r', range(2))
    pl.add_parameter('arr', np.array(['y', 'x']))
    pl.remove_parameter('s')
    pl.add_parameter('s', 'again')
    return hashlib.sha256(repr(pl.build()).encode()).hexdigest()


class _KwargsCollector(Collector):
    def collect(self):
        self.records.append(dict(self.model.kwargs))
        self.model.complete()


class EchoModel(Model):
    __slots__ = ['kwargs']

    def __init__(self, **kwargs):
        super().__init__()
        self.kwargs = kwargs
        self.systems.add_system(_KwargsCollector('echo', self))


def _score(model):
    return model.kwargs['a'] * 10 + model.kwargs['b']


def _key(d):
    return repr(sorted(d.items()))


def _mp_child():
    decl = [('a', [1, 2, 3]), ('label', 'str'), ('b', (0, 1)), ('c', range(2)), ('k', 7)]
    pl = declare(decl, 2)
    want = [dict(c) for c in ref_build(decl)]
    ok = True
    for processes in (1, 3):
        res = batch_run(EchoModel, pl, collectors='echo', processes=processes, repetitions=2)
        got = [r[0] for r in res]
        ok = ok and sorted(map(_key, got)) == sorted(map(_key, want * 2))
        ok = ok and check_build(pl.build(), decl, 'x') == []
    best, everything = grid_search(EchoModel, pl, _score, processes=3, mode=ScoreMode.MAX)
    stripped = [{k: v for k, v in d.items() if k not in ('records', 'score')} for d in everything]
    ok = ok and stripped == want and best['a'] == 3 and best['b'] == 1
    ok = ok and check_build(pl.build(), decl, 'x') == []           # no 'records' / 'score' leaked into the declaration
    same_via_dict = batch_run(EchoModel, dict(decl), collectors='echo', processes=2)
    ok = ok and sorted(_key(r[0]) for r in same_via_dict) == sorted(map(_key, want))
    print('MP-RESULT', ok)


@experiment('08 hash-seed independence; batch_run / grid_search with processes=3 run every combination exactly once')
def _():
    bad = []
    env = dict(os.environ, PYTHONPATH=os.path.dirname(os.path.abspath(__file__)))
    digests = set()
    for seed in ('0', '1', '4242'):
        env['PYTHONHASHSEED'] = seed
        p = subprocess.run([sys.executable, os.path.abspath(__file__), '--digest'], env=env, capture_output=True,
                           text=True, timeout=120)
        digests.add(p.stdout.strip())
    if len(digests) != 1 or '' in digests:
        bad.append(f'build() depends on the hash seed: {digests}')
    try:
        p = subprocess.run([sys.executable, os.path.abspath(__file__), '--mp'], env=env, capture_output=True, text=True,
                           timeout=180)
        line = [ln for ln in p.stdout.splitlines() if ln.startswith('MP-RESULT')]
        if not line or line[0] != 'MP-RESULT True':
            bad.append(f'multiprocessing run: {line or p.stderr[-500:]}')
    except subprocess.TimeoutExpired:
        bad.append('multiprocessing run timed out')
    return bad


# ---------------------------------------------------------------------------------------------------------------------
def observations():
    m = Model()
    env = LineWorld(m, 3)
    empty = ParameterList({'world': env, 'n': [1, 2]}).build()
    env.add_agent(Agent('a0', m), 0)
    env.add_agent(Agent('a1', m), 1)
    filled = ParameterList({'world': env}).build()
    note('A. an Environment instance as a parameter value (package class that defines __iter__ over its agents)',
         f'is taken for a collection: with an empty world ParameterList({{"world": env, "n": [1, 2]}}).build() == '
         f'{empty!r} (no combination at all); with two agents the "values" are the agents: '
         f'{[type(d["world"]).__name__ for d in filled]}. Agent instances, the Agent/Environment classes and Model '
         f'instances are single values. Whether an iterable package object is a "scalar" is not specified (the scope '
         f'only lists list / tuple / range / ndarray as collections and an Environment *is* re-iterable) - not counted.')
    d = ParameterList({'cfg': {'alpha': 1, 'beta': 2}, 'tags': frozenset({'x'})}).build()
    note('B. dict / set / frozenset values',
         f'are iterated like any other iterable (a dict contributes its keys): {d!r}. Not among the collections of the '
         f'scope; sets of strings would additionally make the order hash-seed dependent. Not counted.')
    d = ParameterList({'b': b'ab'}).build()
    note('C. (already decided) bytes values', f'are split into ints: {d!r}.')
    d = ParameterList({'e': ScoreMode}).build()
    note('D. an Enum *class* as value', f'is expanded into its {len(d)} members (EnumMeta defines __iter__). Arguably a '
                                        f're-iterable collection; unspecified, not counted.')

    class TwoKeys(dict):
        def __iter__(self):
            return iter(['a', 'a'])
    try:
        r = ParameterList(TwoKeys(a=[1, 2])).build()
        note('E. duplicate names through the constructor', f'need a hand-written mapping whose iteration repeats a key; '
             f'the repeat is then silently merged ({r!r}) instead of rejected. A dict cannot do that - not counted.')
    except Exception as e:
        note('E. duplicate names through the constructor', f'hand-written mapping repeating a key: {type(e).__name__}')


if __name__ == '__main__':
    if '--digest' in sys.argv:
        print(_digest())
        sys.exit(0)
    if '--mp' in sys.argv:
        _mp_child()
        sys.exit(0)
    run_experiments()
    print()
    observations()
    print()
    print(f'{len(VIOLATIONS)} violation(s) inside the stated scope, {len(NOTES)} uncounted observation(s)')
    sys.exit(1 if VIOLATIONS else 0)
