"""Bug hunt for the property

    "A system runs exactly in its start/end/frequency window; one step = +1"

Run with:  cd /tmp/wt-C02-h && PYTHONPATH=/tmp/wt-C02-h /venv/bin/python hunt.py

Every experiment prints one of
    OK         - the property held for that angle
    VIOLATION  - a genuine violation inside the stated scope (counted, exit code 1)
    NOTE       - odd behaviour that is outside the stated scope or merely unspecified (NOT counted)
"""
import copy
import os
import pickle
import random
import signal
import subprocess
import sys
import warnings
from dataclasses import dataclass

import ECAgent.Batching as Batching
from ECAgent.Collectors import AgentCollector, Collector
from ECAgent.Core import Model, System, SystemManager

RESULTS = []  # (kind, name, message)


def report(kind, name, msg=''):
    RESULTS.append((kind, name, msg))
    print(f'[{kind}] {name}' + (f'\n        {msg}' if msg else ''))


def expected(start, end, freq, t):
    return start <= t <= end and (t - start) % freq == 0


class Rec(System):
    """Records (id, scheduler timestep) every time it is executed."""

    def __init__(self, id, model, log, **kw):
        super().__init__(id, model, **kw)
        self.log = log

    def execute(self):
        self.log.append((self.id, int(self.model.systems.timestep)))


def ticks(log, sid):
    return [t for (i, t) in log if i == sid]


# ----------------------------------------------------------------------------------------------------------------------
# 1. exhaustive small sweep: start (neg/0/pos), end (incl. end < start and default), frequency, +1 per step
# ----------------------------------------------------------------------------------------------------------------------
def exp_sweep():
    bad = []
    for start in range(-7, 8):
        for end in list(range(-7, 12)) + [sys.maxsize]:
            for f in range(1, 7):
                m = Model()
                log = []
                m.systems.add_system(Rec('s', m, log, start=start, end=end, frequency=f))
                for _ in range(15):
                    before = m.timestep
                    m.execute()
                    if not (m.timestep == before + 1 == m.systems.timestep):
                        bad.append(('timestep', start, end, f))
                if ticks(log, 's') != [t for t in range(15) if expected(start, end, f, t)]:
                    bad.append((start, end, f, log))
    if bad:
        report('VIOLATION', 'exhaustive small sweep of start/end/frequency', repr(bad[:3]))
    else:
        report('OK', 'exhaustive small sweep of start/end/frequency (4275 windows, 15 steps each)')


# ----------------------------------------------------------------------------------------------------------------------
# 2. randomised oracle: many systems, late registration (after start), removal, n-step == n single steps
# ----------------------------------------------------------------------------------------------------------------------
def exp_random(seed=1, trials=300):
    rng = random.Random(seed)
    bad = 0
    T = 40
    for _ in range(trials):
        specs = []
        for i in range(rng.randint(1, 8)):
            specs.append(dict(id=f's{i}', reg=rng.randint(0, 20), start=rng.randint(-15, 25),
                              end=rng.choice([sys.maxsize, rng.randint(-15, 45)]), frequency=rng.randint(1, 9),
                              priority=rng.randint(-3, 3), unreg=rng.choice([None, rng.randint(0, 45)])))

        def make():
            m = Model()
            log = []

            def sync():
                for sp in specs:
                    if sp['reg'] == m.timestep:
                        m.systems.add_system(Rec(sp['id'], m, log, start=sp['start'], end=sp['end'],
                                                 frequency=sp['frequency'], priority=sp['priority']))
                    if sp['unreg'] is not None and sp['unreg'] == m.timestep and sp['unreg'] > sp['reg']:
                        m.systems.remove_system(sp['id'])
            return m, log, sync

        m, log, sync = make()
        for _t in range(T):
            sync()
            b = m.timestep
            m.execute()
            if not (m.timestep == b + 1 == m.systems.timestep):
                bad += 1
        exp = set()
        for sp in specs:
            for t in range(T):
                live = sp['reg'] <= t and not (sp['unreg'] is not None and sp['reg'] < sp['unreg'] <= t)
                if live and expected(sp['start'], sp['end'], sp['frequency'], t):
                    exp.add((sp['id'], t))
        if sorted(log) != sorted(exp) or len(log) != len(set(log)):
            bad += 1
        # same scenario, but advancing in the largest possible chunks
        events = sorted({0, T} | {sp['reg'] for sp in specs} |
                        {sp['unreg'] for sp in specs if sp['unreg'] is not None and sp['unreg'] < T})
        m2, log2, sync2 = make()
        for a, b_ in zip(events, events[1:]):
            sync2()
            m2.execute(b_ - a)
        if log2 != log or m2.timestep != T or m2.systems.timestep != T:
            bad += 1
    return bad


def exp_random_report():
    bad = exp_random()
    if bad:
        report('VIOLATION', 'randomised oracle (late registration, removal, chunked execute(n))', f'{bad} mismatches')
    else:
        report('OK', 'randomised oracle: 300 scenarios, up to 8 systems, late registration, removal, '
                     'execute(n) == n x execute()')


# ----------------------------------------------------------------------------------------------------------------------
# 3. huge ints, bools, negative / huge timesteps
# ----------------------------------------------------------------------------------------------------------------------
def exp_huge():
    m = Model()
    log = []
    m.systems.add_system(Rec('s', m, log, start=-10 ** 30, frequency=7))
    m.systems.add_system(Rec('u', m, log, start=-10 ** 30, end=10 ** 40, frequency=10 ** 30))
    m.systems.add_system(Rec('b', m, log, start=True, end=True, frequency=True))
    m.execute(20)
    ok = (ticks(log, 's') == [t for t in range(20) if (t + 10 ** 30) % 7 == 0] and ticks(log, 'u') == [0]
          and ticks(log, 'b') == [1])
    report('OK' if ok else 'VIOLATION', 'huge (10**30) start/end/frequency and bool window values', '' if ok else repr(log))

    # negative timesteps can only be produced by assigning SystemManager.timestep (not really public API)
    m = Model()
    log = []
    m.systems.add_system(Rec('s', m, log, start=-3, frequency=2, end=4))
    m.systems.timestep = -6
    m.execute(14)
    ok = ticks(log, 's') == [-3, -1, 1, 3] and m.timestep == 8
    report('OK' if ok else 'VIOLATION', 'negative timesteps (timestep assigned to -6)', '' if ok else repr(log))

    m = Model()
    log = []
    m.systems.add_system(Rec('s', m, log))
    m.systems.timestep = sys.maxsize - 1
    m.execute(4)
    got = [t - sys.maxsize for t in ticks(log, 's')]
    if got != [-1, 0, 1, 2]:
        report('NOTE', "default end ('forever') is sys.maxsize: a default system stops at t > sys.maxsize",
               f'ran at sys.maxsize+{got}; only reachable by assigning systems.timestep (2**63 real steps are '
               f'impossible) and documented as the default -> not counted')
    else:
        report('OK', 'default end beyond sys.maxsize')


# ----------------------------------------------------------------------------------------------------------------------
# 4. numpy integer scalars as start / end / frequency
# ----------------------------------------------------------------------------------------------------------------------
def exp_numpy():
    try:
        import numpy as np
    except ImportError:
        report('NOTE', 'numpy not installed; numpy scalar angle skipped')
        return
    # signed 64/32 bit: fine
    okay = True
    for typ in (np.int64, np.int32):
        m = Model()
        log = []
        m.systems.add_system(Rec('s', m, log, start=typ(5), frequency=3))
        m.systems.add_system(Rec('f', m, log, start=5, frequency=typ(3)))
        m.systems.add_system(Rec('e', m, log, start=2, end=typ(100), frequency=3))
        m.execute(300)
        okay &= ticks(log, 's') == ticks(log, 'f') == [t for t in range(300) if expected(5, sys.maxsize, 3, t)]
        okay &= ticks(log, 'e') == [t for t in range(300) if expected(2, 100, 3, t)]
    report('OK' if okay else 'VIOLATION', 'numpy signed int32/int64 start/end/frequency')

    # unsigned start: (start - t) wraps around, the window is shifted silently
    msgs = []
    for typ in (np.uint8, np.uint16, np.uint32, np.uint64):
        m = Model()
        log = []
        m.systems.add_system(Rec('s', m, log, start=typ(5), frequency=3))
        with warnings.catch_warnings():
            warnings.simplefilter('ignore')
            m.execute(20)
        exp = [t for t in range(20) if expected(5, sys.maxsize, 3, t)]
        if ticks(log, 's') != exp:
            msgs.append(f'start=np.{typ.__name__}(5), frequency=3 ran at {ticks(log, "s")} expected {exp}')
    # unsigned frequency: crashes the whole step one step after start
    m = Model()
    log = []
    m.systems.add_system(Rec('s', m, log, start=5, frequency=np.uint64(3)))
    try:
        with warnings.catch_warnings():
            warnings.simplefilter('ignore')
            m.execute(20)
    except OverflowError as e:
        msgs.append(f'start=5, frequency=np.uint64(3): execute() raised {e!r} at timestep {m.timestep}')
    if msgs:
        report('VIOLATION', 'numpy UNSIGNED integer scalars as start / frequency (narrow: numpy unsigned only)',
               '\n        '.join(msgs) +
               '\n        repro: m=Model(); m.systems.add_system(S("s", m, start=np.uint64(5), frequency=3)); '
               'm.execute(20)  -> runs at 5,6,9,12,... instead of 5,8,11,...'
               '\n        cause: Core.py:701 computes (sys.start - self.timestep) - negative in the window - which wraps '
               'for unsigned scalars; (self.timestep - sys.start) as written in the property never goes negative')
    else:
        report('OK', 'numpy unsigned start/frequency')

    m = Model()
    log = []
    m.systems.add_system(Rec('s', m, log, start=np.int8(5), frequency=3))
    try:
        m.execute(300)
        report('OK', 'np.int8 start survives timestep > 127')
    except OverflowError as e:
        report('NOTE', 'np.int8 start: execute() raises OverflowError once the timestep exceeds int8 '
                       f'(timestep {m.timestep}: {e}); numpy refuses the mixed arithmetic whatever the operand order '
                       '-> narrow numpy dtype limitation, not counted')


# ----------------------------------------------------------------------------------------------------------------------
# 5. System subclasses with value based __eq__ (e.g. @dataclass)
# ----------------------------------------------------------------------------------------------------------------------
class EqSys(Rec):
    """A system that compares equal to every other system of its class with the same priority."""

    def __eq__(self, other):
        return isinstance(other, EqSys) and self.priority == other.priority

    __hash__ = System.__hash__


@dataclass(init=False)
class DataSys(System):
    """The natural way to hit it: @dataclass generates a field based __eq__."""
    count: int = 0

    def __init__(self, id, model, log, **kw):
        super().__init__(id, model, **kw)
        self.count = 0
        self.log = log

    def execute(self):
        self.log.append((self.id, int(self.model.systems.timestep)))


def exp_eq_systems():
    msgs = []
    for cls in (EqSys, DataSys):
        m = Model()
        log = []
        m.systems.add_system(cls('a', m, log))
        m.systems.add_system(cls('b', m, log, start=1))  # different window, same (default) priority
        m.execute(3)
        if ticks(log, 'b') != [1, 2]:
            msgs.append(f"{cls.__name__}: systems 'a' and 'b' both registered (model.systems['b'] is not None: "
                        f"{m.systems['b'] is not None}) but 'b' ran at {ticks(log, 'b')} instead of [1, 2]; "
                        f"execution_queue ids = {[s.id for s in m.systems.execution_queue]}")
    # remove_system() removes the wrong (equal) system from the queue
    m = Model()
    log = []
    m.systems.add_system(EqSys('a', m, log, priority=1))
    m.systems.add_system(Rec('mid', m, log, priority=0))
    m.systems.add_system(EqSys('b', m, log, priority=1))  # queued (strictly higher priority than 'mid')
    m.execute()
    m.systems.remove_system('b')
    m.execute(2)
    if ticks(log, 'a') != [0, 1, 2] or ticks(log, 'b') != [0]:
        msgs.append(f"remove_system('b') took the equal system 'a' out of the execution queue: 'a' (still registered: "
                    f"{'a' in m.systems.systems}) ran at {ticks(log, 'a')} instead of [0, 1, 2]; 'b' ran at "
                    f"{ticks(log, 'b')}; queue ids = {[s.id for s in m.systems.execution_queue]}")
    if msgs:
        report('VIOLATION', 'System subclasses that define __eq__ (e.g. @dataclass systems)',
               '\n        '.join(msgs) +
               "\n        repro: @dataclass(init=False) class S(System): ... ; add_system(S('a', m)); "
               "add_system(S('b', m)); m.execute() -> 'b' never executes"
               '\n        cause: Core.py:632 `if s not in self.execution_queue` and Core.py:656 '
               '`self.execution_queue.remove(...)` compare with == instead of identity')
    else:
        report('OK', 'systems with value based __eq__')


# ----------------------------------------------------------------------------------------------------------------------
# 6. falsy systems / falsy ids
# ----------------------------------------------------------------------------------------------------------------------
class Falsy(Rec):
    def __len__(self):
        return 0

    def __bool__(self):
        return False


def exp_falsy():
    m = Model()
    log = []
    m.systems.add_system(Falsy('a', m, log, start=1))
    m.systems.add_system(Falsy('b', m, log, priority=5, frequency=2))
    for sid in ('', 0, None, ()):
        m.systems.add_system(Rec(sid, m, log, start=2))
    m.execute(4)
    ok = (ticks(log, 'a') == [1, 2, 3] and ticks(log, 'b') == [0, 2] and
          all(ticks(log, sid) == [2, 3] for sid in ('', 0, None, ())))
    report('OK' if ok else 'VIOLATION', "falsy systems (__bool__/__len__ -> False/0) and falsy ids ('', 0, None, ())",
           '' if ok else repr(log))


# ----------------------------------------------------------------------------------------------------------------------
# 7. validation of n
# ----------------------------------------------------------------------------------------------------------------------
def exp_n_validation():
    import decimal
    import fractions
    m = Model()
    bad = []
    candidates = [0, -1, -10 ** 30, 1.0, 2.5, -0.0, float('nan'), float('inf'), '3', None, [1], (2,),
                  fractions.Fraction(5, 2), decimal.Decimal('1.5'), 1j]
    try:
        import numpy as np
        candidates += [np.float64(2.5), np.int64(0), np.int64(-2)]
    except ImportError:
        pass
    for n in candidates:
        before = m.timestep
        try:
            m.execute(n)
            bad.append(f'{n!r} accepted')
        except (TypeError, ValueError):
            if m.timestep != before:
                bad.append(f'{n!r} rejected but timestep moved')
    for n in (1, 2, 17, 1000):
        before = m.timestep
        m.execute(n)
        if m.timestep != before + n or m.systems.timestep != m.timestep:
            bad.append(f'n={n} advanced {m.timestep - before}')
    m.execute(n=3)
    report('OK' if not bad else 'VIOLATION', 'n validation: non-integer / non-positive n rejected without side effect; '
                                             'n >= 1 advances exactly n', '; '.join(bad))
    # integer-like but not exactly `int`: rejected (TypeError) - documented ("if n is not an int"), not counted
    rejected = []

    class MyInt(int):
        pass
    likes = [True, MyInt(2)]
    try:
        import numpy as np
        likes.append(np.int64(2))
    except ImportError:
        pass
    for n in likes:
        try:
            Model().execute(n)
        except TypeError:
            rejected.append(repr(n))
    if rejected:
        report('NOTE', 'integer-valued n that is not exactly `int` is rejected with TypeError: ' + ', '.join(rejected) +
               ' (documented behaviour; the property only demands rejection of non-integers, so over-rejection of '
               'int subclasses / numpy ints is arguably a usability wart, not counted)')


# ----------------------------------------------------------------------------------------------------------------------
# 8. operations from inside a running timestep
# ----------------------------------------------------------------------------------------------------------------------
class Reentrant(Rec):
    """Asks the model to advance one step from inside its own execute(), once."""

    def __init__(self, *a, **kw):
        super().__init__(*a, **kw)
        self.done = False

    def execute(self):
        super().execute()
        if not self.done:
            self.done = True
            self.model.execute()


def exp_reentrant():
    m = Model()
    log = []
    m.systems.add_system(Rec('H', m, log, priority=10))
    m.systems.add_system(Reentrant('S', m, log, priority=5))
    m.systems.add_system(Rec('L', m, log, priority=1))
    m.execute()  # outer request; S issues one nested request -> 2 requests in total
    m.execute()
    ok = m.timestep == 3 and all(ticks(log, s) == [0, 1, 2] for s in 'HSL')
    if ok:
        report('OK', 're-entrant model.execute() from inside a system')
    else:
        report('VIOLATION', 'a step requested from inside a running timestep (re-entrant model.execute())',
               f'3 requests -> timestep {m.timestep} (fine), but frequency-1 systems did not run once per timestep: '
               f"H ran at {ticks(log, 'H')}, S at {ticks(log, 'S')}, L at {ticks(log, 'L')} (expected [0, 1, 2] each)."
               '\n        H/S run twice during timestep 0 and never during timestep 1; the outer loop continues with '
               'the already advanced self.timestep.'
               '\n        repro: a system whose execute() calls self.model.execute() once, with one higher-priority '
               'system registered'
               '\n        cause: Core.py:696-703 has no re-entrancy guard and re-reads self.timestep for each system')


class Completer(Rec):
    def execute(self):
        super().execute()
        self.model.complete()


class Adder(Rec):
    def execute(self):
        super().execute()
        if self.model.timestep == 1:
            self.model.systems.add_system(Rec('new_hi', self.model, self.log, priority=100))
            self.model.systems.add_system(Rec('new_lo', self.model, self.log, priority=-100))


class ReAdder(Rec):
    def execute(self):
        super().execute()
        if self.model.timestep == 1:
            s = self.model.systems['L']
            self.model.systems.remove_system('L')
            self.model.systems.add_system(s)


class SelfRemover(Rec):
    def execute(self):
        super().execute()
        if self.model.timestep == 1:
            self.clean_up()


class WindowMutator(Rec):
    def execute(self):
        super().execute()
        self.start = self.model.timestep + 3  # next run three steps later
        self.frequency = 1


def exp_inside_step():
    # complete() from inside a step: the step still counts, lower-priority systems are skipped, later requests no-op
    def build():
        m = Model()
        log = []
        m.systems.add_system(Rec('H', m, log, priority=10))
        m.systems.add_system(Completer('S', m, log, priority=5, start=2))
        m.systems.add_system(Rec('L', m, log, priority=1))
        return m, log
    m, log = build()
    m.execute(5)
    m2, log2 = build()
    for _ in range(5):
        m2.execute()
    ok = log == log2 and m.timestep == m2.timestep == m.systems.timestep == 3
    report('OK' if ok else 'VIOLATION', 'model.complete() from inside a step: execute(5) == 5 x execute(), '
                                        'timestep stops moving once complete', '' if ok else f'{log} {log2}')

    m = Model()
    log = []
    m.systems.add_system(Adder('A', m, log, priority=5))
    m.execute(3)
    if ticks(log, 'new_hi') == [2] and ticks(log, 'new_lo') == [2]:
        report('NOTE', 'systems registered from inside timestep t first run at t+1 even if their priority is lower than '
                       'the registering system (deliberate snapshot semantics, commit 652903b; "registered during t" is '
                       'unspecified by the property) - not counted')
    else:
        report('NOTE', f'mid-step registration: new_hi {ticks(log, "new_hi")}, new_lo {ticks(log, "new_lo")}')

    m = Model()
    log = []
    m.systems.add_system(ReAdder('A', m, log, priority=5))
    m.systems.add_system(Rec('L', m, log, priority=1))
    m.systems.add_system(SelfRemover('Z', m, log, priority=0))
    m.systems.add_system(Rec('Y', m, log, priority=-1))
    m.execute(3)
    ok = ticks(log, 'L') == [0, 1, 2] and ticks(log, 'Z') == [0, 1] and ticks(log, 'Y') == [0, 1, 2]
    report('OK' if ok else 'VIOLATION', 'remove + re-add of a later system and self-removal inside a step '
                                        '(nobody skipped or run twice)', '' if ok else repr(log))

    m = Model()
    log = []
    m.systems.add_system(WindowMutator('W', m, log))
    m.execute(10)
    ok = ticks(log, 'W') == [0, 3, 6, 9]
    report('OK' if ok else 'VIOLATION', 'a system that rewrites its own start/frequency while running',
           '' if ok else repr(log))


class Boom(Rec):
    def __init__(self, *a, **kw):
        super().__init__(*a, **kw)
        self.armed = True

    def execute(self):
        if self.armed:
            self.armed = False
            raise RuntimeError('boom')
        super().execute()


def exp_exception_mid_step():
    m = Model()
    log = []
    m.systems.add_system(Rec('H', m, log, priority=10))
    m.systems.add_system(Boom('S', m, log, priority=5))
    m.systems.add_system(Rec('L', m, log, priority=1))
    try:
        m.execute(3)
    except RuntimeError:
        pass
    t_after_exc = m.timestep
    m.execute()
    if ticks(log, 'H') == [0, 0]:
        report('NOTE', f'a system raising inside a step leaves the timestep at {t_after_exc} (step not counted); retrying '
                       f"re-runs the higher-priority systems for the same timestep (H ran at {ticks(log, 'H')}). What a "
                       'failed step should do is unspecified -> not counted')
    else:
        report('OK', 'exception inside a step')


# ----------------------------------------------------------------------------------------------------------------------
# 9. model-level timestep == scheduler timestep
# ----------------------------------------------------------------------------------------------------------------------
class ShadowModel(Model):
    def __init__(self):
        super().__init__()
        self.timestep = 0  # an innocent looking "initialise my clock"


def exp_model_timestep():
    ok = True
    m = Model()
    for _ in range(5):
        m.execute()
        ok &= m.timestep == m.systems.timestep == getattr(m, 'timestep')
    m.systems = SystemManager(m)  # replaced scheduler
    ok &= m.timestep == m.systems.timestep == 0
    m.execute(2)
    ok &= m.timestep == m.systems.timestep == 2
    try:
        m.timestep = 9
        ok = False
    except AttributeError:
        pass
    report('OK' if ok else 'VIOLATION', 'model.timestep mirrors model.systems.timestep (also after replacing the '
                                        'SystemManager); assigning model.timestep on a plain Model is refused')

    sm = ShadowModel()
    sm.execute(3)
    if sm.timestep != sm.systems.timestep:
        report('NOTE', f'Model SUBCLASSES have a __dict__, so `self.timestep = 0` (or model.timestep = x) silently shadows '
                       f'the forwarding __getattr__: model.timestep == {sm.timestep} while model.systems.timestep == '
                       f'{sm.systems.timestep}. Requires user code to write an attribute the package treats as '
                       'read-only -> reported as a hazard, not counted')
    else:
        report('OK', 'subclass assigning self.timestep')


# ----------------------------------------------------------------------------------------------------------------------
# 10. copies, pickles, several models, shared / foreign systems, nested models
# ----------------------------------------------------------------------------------------------------------------------
class Nested(Rec):
    def __init__(self, id, model, log, inner, **kw):
        super().__init__(id, model, log, **kw)
        self.inner = inner

    def execute(self):
        super().execute()
        self.inner.execute(2)


def exp_many_models():
    m = Model()
    log = []
    m.systems.add_system(Rec('a', m, log, start=2, frequency=2))
    m.execute(3)
    m2 = copy.deepcopy(m)
    m2.execute(4)
    m3 = pickle.loads(pickle.dumps(m))
    m3.execute(2)
    ok = (m.timestep == 3 and m2.timestep == m2.systems.timestep == 7 and m2.systems.model is m2 and
          ticks(m2.systems['a'].log, 'a') == [2, 4, 6] and ticks(log, 'a') == [2] and
          m3.timestep == m3.systems.timestep == 5 and ticks(m3.systems['a'].log, 'a') == [2, 4])
    report('OK' if ok else 'VIOLATION', 'deepcopy / pickle round trip of a half-run model keeps clock and windows')

    # the same system object registered with two schedulers: each scheduler applies its own clock
    m1, m2 = Model(), Model()
    count = []

    class Count(System):
        def execute(self):
            count.append(1)
    s = Count('s', m1, start=1, frequency=2)
    m1.systems.add_system(s)
    m2.systems.add_system(s)
    m1.execute(4)  # t = 0..3 -> 1, 3
    m2.execute(2)  # t = 0..1 -> 1
    ok = len(count) == 3 and m1.timestep == 4 and m2.timestep == 2
    report('OK' if ok else 'VIOLATION', 'one system object registered with two models; independent clocks')

    # nested: an outer system steps an inner model twice per outer step
    outer, inner = Model(), Model()
    ilog, olog = [], []
    inner.systems.add_system(Rec('i', inner, ilog, start=1, frequency=3))
    outer.systems.add_system(Nested('o', outer, olog, inner, frequency=2))
    outer.execute(5)
    ok = (outer.timestep == 5 and inner.timestep == 6 and ticks(olog, 'o') == [0, 2, 4] and ticks(ilog, 'i') == [1, 4])
    report('OK' if ok else 'VIOLATION', 'nested stepping of a different model from inside a system')

    # 200 models alive at once, interleaved
    models = []
    for k in range(200):
        mm = Model()
        lg = []
        mm.systems.add_system(Rec('s', mm, lg, start=k % 7 - 3, frequency=k % 5 + 1, end=k % 11))
        models.append((mm, lg, k))
    for rnd in range(12):
        for mm, lg, k in models:
            if (k + rnd) % 3:
                mm.execute()
    ok = all(ticks(lg, 's') == [t for t in range(mm.timestep) if expected(k % 7 - 3, k % 11, k % 5 + 1, t)]
             for mm, lg, k in models)
    report('OK' if ok else 'VIOLATION', '200 models alive at once, stepped interleaved')


# ----------------------------------------------------------------------------------------------------------------------
# 11. collectors (System subclasses shipped with the package) honour their windows
# ----------------------------------------------------------------------------------------------------------------------
class TickCollector(Collector):
    def collect(self):
        self.records.append(self.model.systems.timestep)


def exp_collectors():
    m = Model()
    m.systems.add_system(TickCollector('c', m, frequency=3, start=2, end=9))
    m.systems.add_system(AgentCollector(m, lambda a: None, includeTimstep=True, frequency=4, start=-2, end=11))
    m.execute(20)
    ok = (m.systems['c'].records == [2, 5, 8] and
          [r['timestep'] for r in m.systems['AgentCollector'].records] == [2, 6, 10])
    report('OK' if ok else 'VIOLATION', 'Collector / AgentCollector windows and recorded timestep',
           '' if ok else f"{m.systems['c'].records} {m.systems['AgentCollector'].records}")


# ----------------------------------------------------------------------------------------------------------------------
# 12. batching: single process vs real multiprocessing (with a timeout)
# ----------------------------------------------------------------------------------------------------------------------
class BatchModel(Model):
    def __init__(self, start, frequency):
        super().__init__()
        self.systems.add_system(TickCollector('c', self, start=start, frequency=frequency, end=17))


def exp_batching():
    params = {'start': [-4, 0, 3], 'frequency': [1, 2, 5]}

    def check(res):
        want = sorted([t for t in range(25) if expected(s, 17, f, t)] for s in params['start'] for f in params['frequency'])
        return sorted(res) == want

    res1 = Batching.batch_run(BatchModel, params, collectors='c', max_timesteps=25)
    ok1 = check(res1)

    def on_alarm(signum, frame):
        raise TimeoutError('multiprocessing batch_run timed out')
    old = signal.signal(signal.SIGALRM, on_alarm)
    signal.alarm(60)
    try:
        res2 = Batching.batch_run(BatchModel, params, collectors='c', max_timesteps=25, processes=3)
        ok2 = check(res2)
        msg = ''
    except Exception as e:  # noqa
        ok2 = False
        msg = repr(e)
    finally:
        signal.alarm(0)
        signal.signal(signal.SIGALRM, old)
    report('OK' if ok1 and ok2 else 'VIOLATION', 'batch_run (processes=1 and processes=3): every worker model steps '
                                                 '0..max_timesteps-1 with correct windows', msg)


# ----------------------------------------------------------------------------------------------------------------------
# 13. hash-seed independence
# ----------------------------------------------------------------------------------------------------------------------
def exp_hash_seed():
    outs = set()
    for seed in ('0', '1', '12345'):
        env = dict(os.environ, PYTHONHASHSEED=seed, PYTHONPATH=os.path.dirname(os.path.abspath(__file__)))
        p = subprocess.run([sys.executable, os.path.abspath(__file__), '--random-only'], env=env, capture_output=True,
                           text=True, timeout=300)
        outs.add(p.stdout.strip())
    report('OK' if outs == {'0'} else 'VIOLATION', 'randomised oracle under PYTHONHASHSEED=0/1/12345', repr(outs))


def main():
    if '--random-only' in sys.argv:
        print(exp_random(seed=7, trials=100))
        return 0
    import ECAgent
    print('ECAgent imported from', ECAgent.__file__)
    for exp in (exp_sweep, exp_random_report, exp_huge, exp_numpy, exp_eq_systems, exp_falsy, exp_n_validation,
                exp_reentrant, exp_inside_step, exp_exception_mid_step, exp_model_timestep, exp_many_models,
                exp_collectors, exp_batching, exp_hash_seed):
        try:
            exp()
        except Exception as e:  # an experiment itself blew up: show it, do not hide it
            import traceback
            traceback.print_exc()
            report('NOTE', f'{exp.__name__} crashed: {e!r}')
    n_viol = sum(1 for k, _, _ in RESULTS if k == 'VIOLATION')
    print(f"\n{n_viol} violation(s), {sum(1 for k, _, _ in RESULTS if k == 'NOTE')} note(s) (not counted), "
          f"{sum(1 for k, _, _ in RESULTS if k == 'OK')} OK")
    return 1 if n_viol else 0


if __name__ == '__main__':
    sys.exit(main())
