"""Second-pass bug hunt for property C02:

  "A system runs exactly in its start/end/frequency window; one step = +1"

Run with:  cd /tmp/wt-C02-i && PYTHONPATH=/tmp/wt-C02-i /venv/bin/python hunt.py

Every experiment prints OK, NOTE (observation that is outside the stated scope / unspecified and therefore NOT
counted) or VIOLATION (counted).  Exit status 1 iff at least one VIOLATION was printed.
"""
import copy
import os
import pickle
import random
import subprocess
import sys
import tempfile
import textwrap
import warnings
from dataclasses import dataclass
from fractions import Fraction

warnings.simplefilter('ignore', DeprecationWarning)

import ECAgent
from ECAgent.Core import Model, System, SystemManager, ModelCompleteError
from ECAgent.Collectors import Collector, AgentCollector, FileCollector

HERE = os.path.dirname(os.path.abspath(__file__))
VIOLATIONS = []
NOTES = []


def ok(name):
    print(f"[OK]        {name}")


def note(name, text):
    NOTES.append(name)
    print(f"[NOTE]      {name}: {text}")


def violation(name, text):
    VIOLATIONS.append(name)
    print(f"[VIOLATION] {name}: {text}")


def experiment(func):
    try:
        problems = func()
    except Exception as e:  # an experiment that blows up is itself worth looking at
        import traceback
        traceback.print_exc()
        violation(func.__name__, f"experiment raised {type(e).__name__}: {e}")
        return
    if problems:
        for p in problems:
            violation(func.__name__, p)
    else:
        ok(func.__name__ + " - " + (func.__doc__ or '').strip().splitlines()[0])


class Rec(System):
    """System that logs (timestep, id) each time it runs."""

    def __init__(self, id, model, log, **kw):
        super().__init__(id, model, **kw)
        self.log = log

    def execute(self):
        self.log.append((self.model.systems.timestep, self.id))


def due(start, end, freq, t):
    return start <= t <= end and (t - start) % freq == 0


# --------------------------------------------------------------------------------------------------------------------
def e01_random_differential():
    """random windows/priorities, registration and removal at arbitrary timesteps vs. an independent oracle"""
    problems = []
    rng = random.Random(20260927)
    for trial in range(400):
        m = Model()
        log = []
        expected = []
        registered = {}
        counter = 0
        t0 = rng.choice([0, 0, 0, -7, 5, 10 ** 20])  # the scheduler's clock is a public attribute
        m.systems.timestep = t0
        for step in range(rng.randint(1, 40)):
            t = t0 + step
            # between-step registrations / removals
            for _ in range(rng.randint(0, 2)):
                if registered and rng.random() < 0.3:
                    sid = rng.choice(list(registered))
                    m.systems.remove_system(sid)
                    del registered[sid]
                else:
                    start = t0 + rng.randint(-15, 25)
                    kind = rng.random()
                    kw = dict(start=start, frequency=rng.randint(1, 7), priority=rng.randint(-3, 3))
                    if kind < 0.3:
                        pass  # default 'forever'
                    elif kind < 0.5:
                        kw['end'] = start - rng.randint(1, 5)  # end < start: never
                    else:
                        kw['end'] = start + rng.randint(0, 30)
                    sid = f's{counter}'
                    counter += 1
                    s = Rec(sid, m, log, **kw)
                    m.systems.add_system(s)
                    registered[sid] = s
            before = m.systems.timestep
            m.execute()
            if m.systems.timestep != before + 1 or m.timestep != m.systems.timestep:
                problems.append(f"trial {trial}: step at t={before} -> systems.timestep={m.systems.timestep}, "
                                f"model.timestep={m.timestep}")
            for sid, s in registered.items():
                if due(s.start, s.end, s.frequency, t):
                    expected.append((t, sid))
        if sorted(log) != sorted(expected):
            problems.append(f"trial {trial}: run log differs from oracle: extra={sorted(set(log) - set(expected))[:5]} "
                            f"missing={sorted(set(expected) - set(log))[:5]} dup={len(log) != len(set(log))}")
            break
    return problems


def e02_n_steps_equal_n_single_steps():
    """execute(n) == n x execute() == n x systems.execute_systems(), for random partitions of the run"""
    problems = []
    rng = random.Random(7)
    for trial in range(100):
        specs = [dict(start=rng.randint(-10, 20), frequency=rng.randint(1, 5), priority=rng.randint(-2, 2))
                 for _ in range(rng.randint(0, 6))]
        for sp in specs:
            if rng.random() < 0.6:
                sp['end'] = sp['start'] + rng.randint(-3, 20)
        total = rng.randint(1, 60)
        logs = []
        for mode in range(3):
            m = Model()
            log = []
            for i, sp in enumerate(specs):
                m.systems.add_system(Rec(i, m, log, **sp))
            if mode == 0:
                m.execute(total)
            elif mode == 1:
                for _ in range(total):
                    m.execute()
            else:
                left = total
                while left:
                    k = rng.randint(1, left)
                    if rng.random() < 0.5:
                        m.execute(k)
                    else:
                        for _ in range(k):
                            m.systems.execute_systems(rng.random() < 0.5)
                    left -= k
            if m.timestep != total or m.systems.timestep != total:
                problems.append(f"trial {trial} mode {mode}: timestep {m.timestep}/{m.systems.timestep} != {total}")
            logs.append(log)
        if not (logs[0] == logs[1] == logs[2]):
            problems.append(f"trial {trial}: logs differ between execute(n), n x execute() and a random partition")
    return problems


def e03_bad_n_rejected_and_harmless():
    """non-integer / non-positive n is rejected and leaves the model untouched"""
    import numpy as np
    problems = []

    class MyInt(int):
        pass

    bad = [0, -1, -10 ** 30, True, False, 1.0, 2.5, float('nan'), float('inf'), '1', b'1', None, [1], (1,), 1 + 0j,
           Fraction(2, 1), np.int64(2), np.int32(1), np.uint8(1), np.float64(1), np.bool_(True), MyInt(2), range(2)]
    for n in bad:
        m = Model()
        log = []
        m.systems.add_system(Rec('a', m, log))
        m.execute(3)
        try:
            m.execute(n)
        except (TypeError, ValueError):
            pass
        except Exception as e:
            problems.append(f"execute({n!r}) raised unexpected {type(e).__name__}")
        else:
            problems.append(f"execute({n!r}) of type {type(n).__name__} was accepted (timestep now {m.timestep})")
        if m.timestep != 3 or len(log) != 3 or not m.is_running():
            problems.append(f"execute({n!r}) changed the model: timestep={m.timestep} runs={len(log)}")
    # positive ints of any size are accepted (the model completes itself so a huge n terminates)
    m = Model()

    class Stop(System):
        def execute(self):
            if self.model.timestep == 4:
                self.model.complete()
    m.systems.add_system(Stop('stop', m))
    import itertools  # noqa
    # cannot loop 10**30 times for real; check a moderately large n only
    m.execute(20000)
    if m.timestep != 5:
        problems.append(f"execute(20000) across a completion at t=4 left timestep {m.timestep}, expected 5")
    return problems


def e04_huge_and_negative_clock():
    """windows far beyond 2**63 and negative clocks obey the same rule (explicit end)"""
    problems = []
    for base in (10 ** 30, -10 ** 30, 2 ** 63 - 3, -2 ** 63 - 3, -5):
        m = Model()
        log = []
        m.systems.timestep = base
        m.systems.add_system(Rec('a', m, log, start=base + 1, end=base + 9, frequency=3))
        m.systems.add_system(Rec('b', m, log, start=base - 4, end=base + 100, frequency=5))
        m.execute(15)
        exp = sorted([(base + k, 'a') for k in (1, 4, 7)] + [(base + k, 'b') for k in (1, 6, 11)])
        if sorted(log) != exp or m.timestep != base + 15:
            problems.append(f"base {base}: got {sorted(log)} expected {exp}; timestep {m.timestep}")
    return problems


def e04b_default_end_is_not_forever_past_maxsize():
    """default end ('forever') when the clock / start lies beyond sys.maxsize"""
    m = Model()
    log = []
    m.systems.timestep = sys.maxsize - 1
    m.systems.add_system(Rec('a', m, log))  # start=0, default end
    m.execute(4)
    ran = [t for t, _ in log]
    if ran != [sys.maxsize - 1 + k for k in range(4)]:
        note('e04b_default_end_is_not_forever_past_maxsize',
             f"a system with the default end stops at t=sys.maxsize (ran at {len(ran)} of 4 timesteps around it). "
             "Only reachable by assigning systems.timestep (or start > sys.maxsize); 2**63 steps cannot be stepped "
             "through, so NOT counted.")
    else:
        ok('e04b default end is forever even past sys.maxsize')


def e05_int_like_window_values():
    """bool, numpy signed ints and integral floats as start/end/frequency behave as the equal Python int"""
    import numpy as np
    problems = []
    variants = {
        'int': dict(start=2, end=11, frequency=3),
        'bool-frequency': dict(start=2, end=11, frequency=True),
        'bool-start': dict(start=True, end=11, frequency=3),
        'np.int64': dict(start=np.int64(2), end=np.int64(11), frequency=np.int64(3)),
        'np.int8': dict(start=np.int8(2), end=np.int8(11), frequency=np.int8(3)),
        'np.int64-negative-start': dict(start=np.int64(-4), end=np.int64(11), frequency=np.int64(3)),
        'float-integral': dict(start=2.0, end=11.0, frequency=3.0),
        'neg-zero-start': dict(start=-0.0, end=11, frequency=3),
    }
    for name, kw in variants.items():
        m = Model()
        log = []
        m.systems.add_system(Rec('a', m, log, **kw))
        m.execute(20)
        exp = [t for t in range(20) if due(int(kw['start']), int(kw['end']), int(kw['frequency']), t)]
        got = [t for t, _ in log]
        if got != exp or type(m.timestep) is not int:
            problems.append(f"{name}: ran at {got}, expected {exp}; type(timestep)={type(m.timestep).__name__}")
    return problems


def e06_windows_mutated_while_running():
    """a system (or the user) changing start/end/frequency later: the rule is evaluated on the current values"""
    problems = []
    m = Model()
    log = []

    class Mut(Rec):
        def execute(self):
            super().execute()
            if self.model.timestep == 4:
                self.frequency = 3  # from now on 4, 7, 10 ... relative to start=0 -> 6, 9, 12
            if self.model.timestep == 9:
                self.end = 12

    m.systems.add_system(Mut('a', m, log, frequency=2))
    m.execute(20)
    got = [t for t, _ in log]
    if got != [0, 2, 4, 6, 9, 12]:
        problems.append(f"got {got}")
    return problems


def e07_mid_timestep_registration_and_removal():
    """systems that add / remove / re-add systems from inside execute(): nobody runs twice, nobody is skipped"""
    problems = []

    # (a) self-removal, removal of a later and of an earlier system
    m = Model()
    log = []

    class Remover(Rec):
        def __init__(self, *a, victims=(), at=2, **kw):
            super().__init__(*a, **kw)
            self.victims, self.at = victims, at

        def execute(self):
            super().execute()
            if self.model.timestep == self.at:
                for v in self.victims:
                    self.model.systems.remove_system(v)

    m.systems.add_system(Rec('hi', m, log, priority=10))
    m.systems.add_system(Remover('rm', m, log, priority=5, victims=('hi', 'rm', 'lo')))
    m.systems.add_system(Rec('lo', m, log, priority=1))
    m.systems.add_system(Rec('lowest', m, log, priority=0))
    m.execute(5)
    exp = sorted([(t, 'lowest') for t in range(5)] + [(t, 'hi') for t in range(3)] + [(t, 'rm') for t in range(3)]
                 + [(t, 'lo') for t in range(2)])
    if sorted(log) != exp or m.timestep != 5:
        problems.append(f"(a) removal inside a timestep: {sorted(log)} != {exp}")

    # (b) a system registers a higher-priority and a lower-priority system mid-step
    m = Model()
    log = []

    class Adder(Rec):
        def execute(self):
            super().execute()
            if self.model.timestep == 1:
                self.model.systems.add_system(Rec('new-hi', self.model, self.log, priority=99))
                self.model.systems.add_system(Rec('new-lo', self.model, self.log, priority=-99))

    m.systems.add_system(Rec('first', m, log, priority=10))
    m.systems.add_system(Adder('adder', m, log, priority=5))
    m.systems.add_system(Rec('last', m, log, priority=1))
    m.execute(4)
    from collections import Counter
    c = Counter(log)
    if any(v != 1 for v in c.values()):
        problems.append(f"(b) some system ran twice in a timestep: {[k for k, v in c.items() if v != 1]}")
    for sid in ('first', 'adder', 'last'):
        if [t for t, s in log if s == sid] != [0, 1, 2, 3]:
            problems.append(f"(b) {sid} ran at {[t for t, s in log if s == sid]}")
    for sid in ('new-hi', 'new-lo'):
        got = [t for t, s in log if s == sid]
        if got not in ([1, 2, 3], [2, 3]):
            problems.append(f"(b) {sid} ran at {got}")
    lo = [t for t, s in log if s == 'new-lo']
    if lo == [2, 3]:
        note('e07_mid_timestep_registration',
             "a system registered from inside timestep t (even with a lower priority than the registering system) "
             "first runs in t+1: registration takes effect at the next timestep boundary. Consistent for both "
             "priorities; the statement does not define 'registered' for a partially elapsed timestep -> unspecified, "
             "NOT counted.")

    # (c) remove + re-add the same object in the same timestep (before and after its slot)
    for prio_swapper, label in ((10, 'before its slot'), (1, 'after its slot')):
        m = Model()
        log = []

        class Swap(Rec):
            def execute(self):
                super().execute()
                if self.model.timestep == 1:
                    tgt = self.model.systems['tgt']
                    self.model.systems.remove_system('tgt')
                    self.model.systems.add_system(tgt)

        m.systems.add_system(Rec('tgt', m, log, priority=5))
        m.systems.add_system(Swap('swap', m, log, priority=prio_swapper))
        m.execute(3)
        if [t for t, s in log if s == 'tgt'] != [0, 1, 2]:
            problems.append(f"(c) re-added {label}: tgt ran at {[t for t, s in log if s == 'tgt']}")

    # (d) a system replaced by a *different* object with the same id during the timestep: the old one must not run
    m = Model()
    log = []

    class Replace(Rec):
        def execute(self):
            super().execute()
            if self.model.timestep == 1:
                self.model.systems.remove_system('tgt')
                self.model.systems.add_system(Rec('tgt', self.model, self.log2, priority=5))

    r = Replace('rep', m, log, priority=10)
    r.log2 = []
    m.systems.add_system(r)
    m.systems.add_system(Rec('tgt', m, log, priority=5))
    m.execute(4)
    old = [t for t, s in log if s == 'tgt']
    new = [t for t, s in r.log2]
    if old != [0] or new not in ([2, 3], [1, 2, 3]):
        problems.append(f"(d) old ran at {old}, replacement ran at {new}")
    return problems


def e08_one_system_two_models():
    """the same System object registered with two models whose clocks differ follows each model's clock"""
    problems = []
    m1, m2 = Model(), Model()
    runs = []

    class Both(System):
        def execute(self):
            runs.append((m1.timestep, m2.timestep))

    s = Both('s', m1, start=3, end=8, frequency=2)
    m1.systems.add_system(s)
    m2.systems.add_system(s)
    m2.execute(2)  # m2 is two steps ahead
    runs.clear()
    got1, got2 = [], []
    for _ in range(10):
        n = len(runs)
        t = m1.timestep
        m1.execute()
        if len(runs) > n:
            got1.append(t)
        n = len(runs)
        t = m2.timestep
        m2.execute()
        if len(runs) > n:
            got2.append(t)
    if got1 != [3, 5, 7] or got2 != [3, 5, 7]:
        problems.append(f"m1 ran it at {got1}, m2 at {got2}")
    return problems


def e09_many_models_interleaved():
    """several models alive at once, stepped in interleaved order, do not share clocks or queues"""
    problems = []
    rng = random.Random(3)
    models = []
    for i in range(6):
        m = Model()
        log = []
        kw = dict(start=rng.randint(-3, 5), frequency=rng.randint(1, 4))
        m.systems.add_system(Rec('same-id', m, log, **kw))
        models.append((m, log, kw, [0]))
    for _ in range(200):
        m, log, kw, cnt = rng.choice(models)
        n = rng.randint(1, 3)
        m.execute(n)
        cnt[0] += n
    for i, (m, log, kw, cnt) in enumerate(models):
        exp = [t for t in range(cnt[0]) if due(kw['start'], sys.maxsize, kw['frequency'], t)]
        if m.timestep != cnt[0] or [t for t, _ in log] != exp:
            problems.append(f"model {i}: timestep {m.timestep} vs {cnt[0]}; runs {[t for t, _ in log]} vs {exp}")
    return problems


def e10_completion_inside_a_step():
    """a system completing the model: that request still counts +1, later requests change nothing; n-step == singles"""
    problems = []
    for mode in ('n', 'single'):
        m = Model()
        log = []

        class Stop(Rec):
            def execute(self):
                super().execute()
                if self.model.timestep == 3:
                    self.model.complete()

        m.systems.add_system(Rec('hi', m, log, priority=5))
        m.systems.add_system(Stop('stop', m, log, priority=3))
        m.systems.add_system(Rec('lo', m, log, priority=1))
        if mode == 'n':
            m.execute(10)
        else:
            for _ in range(10):
                m.execute()
        exp = sorted([(t, s) for t in range(3) for s in ('hi', 'stop', 'lo')] + [(3, 'hi'), (3, 'stop')])
        if sorted(log) != exp or m.timestep != 4 or m.systems.timestep != 4:
            problems.append(f"mode {mode}: timestep {m.timestep}, log {sorted(log)}")
        try:
            m.systems.execute_systems(True)
            problems.append("no ModelCompleteError")
        except ModelCompleteError:
            pass
        if m.timestep != 4:
            problems.append("timestep moved on a completed model")
    return problems


def e11_copies_and_pickles_continue_identically():
    """deepcopy / pickle of a model in mid-run: the copy keeps clock and windows, original and copy are independent"""
    problems = []
    m = Model(seed=1)
    m.systems.add_system(PRec('a', m, start=-3, frequency=4, priority=2))
    m.systems.add_system(PRec('b', m, start=5, end=9, frequency=2))
    m.execute(6)
    for name, clone in (('deepcopy', copy.deepcopy(m)), ('pickle', pickle.loads(pickle.dumps(m))),
                        ('copy.copy-of-deepcopy', copy.deepcopy(copy.deepcopy(m)))):
        if clone.timestep != 6 or clone.systems.timestep != 6:
            problems.append(f"{name}: clock {clone.timestep}")
        clone.execute(10)
        if m.timestep != 6:
            problems.append(f"{name}: stepping the copy moved the original to {m.timestep}")
        for sid in ('a', 'b'):
            s = clone.systems[sid]
            exp = [t for t in range(16) if due(s.start, s.end, s.frequency, t)]
            if s.ran != exp:
                problems.append(f"{name}: {sid} ran at {s.ran}, expected {exp}")
    m.execute(10)
    for sid in ('a', 'b'):
        s = m.systems[sid]
        exp = [t for t in range(16) if due(s.start, s.end, s.frequency, t)]
        if s.ran != exp:
            problems.append(f"original after copies: {sid} ran at {s.ran}, expected {exp}")
    return problems


class PRec(System):  # module level so that it pickles
    def __init__(self, *a, **kw):
        super().__init__(*a, **kw)
        self.ran = []

    def execute(self):
        self.ran.append(self.model.systems.timestep)


def e12_awkward_but_legal_subclasses_and_ids():
    """System subclasses with value equality / falsy truth value / __len__ 0, falsy and cross-type ids, Model subclasses"""
    problems = []

    @dataclass(eq=True)
    class DC(System):
        tagname: str = 'x'

        def __init__(self, id, model, log, **kw):
            System.__init__(self, id, model, **kw)
            self.tagname = 'x'
            self.log = log

        def __eq__(self, other):
            return isinstance(other, DC)  # every DC equals every other DC

        __hash__ = None

        def execute(self):
            self.log.append((self.model.timestep, self.id))

    class Falsy(Rec):
        def __bool__(self):
            return False

        def __len__(self):
            return 0

    class SubModel(Model):
        __slots__ = ()

    class DictModel(Model):
        def __init__(self):
            super().__init__()
            self.steps_wanted = 5

        def __len__(self):
            return 0

    for mcls in (Model, SubModel, DictModel):
        m = mcls()
        log = []
        ids = [0, '', (), 'a', 2, -1, -2, 1.5]
        specs = {}
        for k, sid in enumerate(ids):
            cls = (DC, Falsy, Rec)[k % 3]
            kw = dict(start=k - 2, frequency=1 + k % 3, priority=k % 2)
            specs[sid] = kw
            m.systems.add_system(cls(sid, m, log, **kw))
        m.execute(7)
        m.systems.remove_system('')
        m.systems.remove_system(0)
        m.execute(7)
        exp = []
        for sid, kw in specs.items():
            last = 7 if sid in ('', 0) else 14
            exp += [(t, sid) for t in range(last) if due(kw['start'], sys.maxsize, kw['frequency'], t)]
        if sorted(log, key=repr) != sorted(exp, key=repr) or m.timestep != 14:
            problems.append(f"{mcls.__name__}: log differs; timestep {m.timestep}")
        # ids that are equal across types are one id: the second registration must be refused, not half-done
        for dup in (2.0, -1.0, Fraction(2, 1)):
            try:
                m.systems.add_system(Rec(dup, m, log))
                problems.append(f"id {dup!r} accepted although an equal id is registered")
            except KeyError:
                pass
    return problems


def e13_exception_inside_a_step():
    """(unspecified) a system that raises: the step is not counted and a retry re-runs the earlier systems"""
    m = Model()
    log = []

    class Flaky(Rec):
        def execute(self):
            if self.model.timestep == 2 and not getattr(self, 'failed', False):
                self.failed = True
                raise RuntimeError('transient')
            super().execute()

    m.systems.add_system(Rec('hi', m, log, priority=5))
    m.systems.add_system(Flaky('flaky', m, log, priority=1))
    m.execute(2)
    try:
        m.execute()
    except RuntimeError:
        pass
    t_after_error = m.timestep
    m.execute()
    hi_at_2 = log.count((2, 'hi'))
    if t_after_error == 2 and hi_at_2 == 2:
        note('e13_exception_inside_a_step',
             "when a system raises, the clock stays at t and a retried execute() runs the higher-priority systems of "
             "timestep t a second time (hi ran twice at t=2). The statement says nothing about requests that end in "
             "an exception raised by user code -> unspecified, NOT counted.")
    else:
        ok(f'e13 exception inside a step: clock after error {t_after_error}, hi ran {hi_at_2}x at t=2')


def e14_add_system_error_path():
    """(out of scope: illegal priority) add_system that raises half-registers the system"""
    m = Model()
    log = []
    m.systems.add_system(Rec('a', m, log, priority=0))
    bad = Rec('b', m, log, priority=None)
    try:
        m.systems.add_system(bad)
        raised = False
    except TypeError:
        raised = True
    m.execute(3)
    if raised and m.systems['b'] is bad and not any(s == 'b' for _, s in log):
        note('e14_add_system_error_path',
             "add_system(System(priority=None)) with a non-empty queue raises TypeError AFTER storing the system in "
             "systems.systems: systems['b'] returns it, a second add_system says 'already registered', but it is not "
             "in the execution queue and never runs. Needs an illegal (non-int, non-comparable) priority, so outside "
             "the stated scope; NOT counted. (Fix: compute the insertion index before touching self.systems.)")
    else:
        ok('e14 add_system error path leaves no half-registered system')


def e15_id_changed_after_registration():
    """(out of scope) renaming a registered system"""
    m = Model()
    log = []
    s = Rec('old', m, log)
    m.systems.add_system(s)
    m.execute(2)
    s.id = 'new'
    m.execute(2)
    if len(log) == 2:
        note('e15_id_changed_after_registration',
             "assigning system.id after registration makes the scheduler silently skip the system forever (it is "
             "still in systems.systems under the old key and in the execution queue). The registry is keyed by id, so "
             "renaming a registered system is misuse; NOT counted.")
    else:
        ok('e15 renamed system keeps running')


def e16_real_multiprocessing():
    """batch_run with processes=2 gives the same windowed records as processes=1 (separate process, 120 s timeout)"""
    problems = []
    code = textwrap.dedent('''
        import sys, json
        from ECAgent.Core import Model, System
        from ECAgent.Collectors import Collector
        from ECAgent.Batching import batch_run

        class Clock(Collector):
            def collect(self):
                self.records.append((self.model.timestep, self.model.systems.timestep))

        class Stopper(System):
            def execute(self):
                self.model.complete()

        class M(Model):
            def __init__(self, start, frequency, stop_at):
                super().__init__()
                self.systems.add_system(Clock('c', self, start=start, end=start + 11, frequency=frequency))
                self.systems.add_system(Clock('d', self, start=-start, frequency=frequency + 1, priority=3))
                self.systems.add_system(Stopper('stop', self, start=stop_at, end=stop_at, priority=1))

        if __name__ == '__main__':
            params = {'start': [-2, 0, 3], 'frequency': [1, 2, 5], 'stop_at': [7, 1000]}
            out = []
            for p in (1, 2, 3):
                r = batch_run(M, params, collectors=['c', 'd'], processes=p, max_timesteps=25)
                out.append(sorted(json.dumps(x, sort_keys=True) for x in r))
            print(json.dumps(out))
    ''')
    with tempfile.TemporaryDirectory() as d:
        path = os.path.join(d, 'mp_case.py')
        with open(path, 'w') as f:
            f.write(code)
        env = dict(os.environ, PYTHONPATH=HERE)
        try:
            res = subprocess.run([sys.executable, path], capture_output=True, text=True, timeout=120, env=env)
        except subprocess.TimeoutExpired:
            return ["batch_run with processes>1 did not finish within 120 s"]
    if res.returncode != 0:
        return [f"multiprocessing case failed: {res.stderr[-500:]}"]
    import json
    out = json.loads(res.stdout.strip().splitlines()[-1])
    if not (out[0] == out[1] == out[2]):
        problems.append("records differ between processes=1, 2 and 3")
    if len(out[0]) != 18:
        problems.append(f"expected 18 runs, got {len(out[0])}")
    # check the windows from the records of the serial run
    for js in out[0]:
        rec = json.loads(js)
        for key in ('c', 'd'):
            if any(a != b for a, b in rec[key]):
                problems.append(f"model.timestep != systems.timestep inside a collector: {rec[key]}")
    # and against the oracle
    import itertools
    exp = []
    for start, freq, stop_at in itertools.product([-2, 0, 3], [1, 2, 5], [7, 1000]):
        last = min(25, stop_at + 1)
        # 'd' has priority 3 (> stopper's 1) so it still runs in the completing timestep; 'c' (priority -1) does not
        c = [[t, t] for t in range(last) if due(start, start + 11, freq, t) and t != stop_at]
        dd = [[t, t] for t in range(last) if due(-start, sys.maxsize, freq + 1, t)]
        exp.append(json.dumps({'c': c, 'd': dd}, sort_keys=True))
    if sorted(exp) != out[0]:
        problems.append("batch records differ from the oracle")
    return problems


def e17_builtin_collectors_forward_their_windows():
    """Collector / AgentCollector / FileCollector hand start, end, frequency to the scheduler unchanged"""
    problems = []
    with tempfile.TemporaryDirectory() as d:
        m = Model()
        from ECAgent.Core import Agent
        m.environment.add_agent(Agent('x', m))
        ac = AgentCollector(m, lambda a: 1, includeTimstep=True, start=3, end=10, frequency=4)
        ac2 = AgentCollector(m, lambda a: 1, None, True, 'ac2', 5, 2, -1, 6)  # positional
        m.systems.add_system(ac)
        m.systems.add_system(ac2)

        class FC(FileCollector):
            def collect(self):
                self.records.append(f"{self.model.timestep}\n")

        fc = FC('fc', m, os.path.join(d, 'out.txt'), start=-2, end=9, frequency=3)
        fc2 = FC('fc2', m, os.path.join(d, 'out2.txt'), 0, 5, 2, 12, 'w', 0, True)  # positional
        m.systems.add_system(fc)
        m.systems.add_system(fc2)

        class C(Collector):
            def collect(self):
                self.records.append(self.model.timestep)

        c = C('c', m, start=1, end=1)
        m.systems.add_system(c)
        m.execute(15)
        got = {
            'ac': [r['timestep'] for r in ac.records],
            'ac2': [r['timestep'] for r in ac2.records],
            'fc': [int(x) for x in open(os.path.join(d, 'out.txt')).read().split()],
            'c': c.records,
        }
        exp = {'ac': [3, 7], 'ac2': [1, 3, 5], 'fc': [1, 4, 7], 'c': [1]}
        if got != exp:
            problems.append(f"got {got} expected {exp}")
        if (fc2.frequency, fc2.start, fc2.end) != (5, 2, 12):
            problems.append("FileCollector positional window mixed up")
    return problems


def e18_deprecated_aliases():
    """executeSystems / addSystem / removeSystem aliases advance and schedule exactly like the new names"""
    problems = []
    m = Model()
    log = []
    with warnings.catch_warnings():
        warnings.simplefilter('ignore')
        m.systems.addSystem(Rec('a', m, log, start=1, frequency=2))
        for _ in range(5):
            m.systems.executeSystems()
        m.systems.removeSystem('a')
        m.systems.executeSystems()
    if m.timestep != 6 or [t for t, _ in log] != [1, 3]:
        problems.append(f"timestep {m.timestep}, log {log}")
    return problems


def e19_replaced_scheduler_and_environment():
    """model.timestep follows model.systems even when the scheduler or the environment object is replaced"""
    problems = []
    from ECAgent.Core import Environment
    from ECAgent.Environments import GridWorld
    m = Model()
    log = []
    m.systems.add_system(Rec('a', m, log))
    m.execute(3)
    m.set_environment(GridWorld(m, 3, 3))
    m.execute(2)
    if m.timestep != 5 or len(log) != 5:
        problems.append(f"after replacing the environment: {m.timestep}, {len(log)}")
    old = m.systems
    m.systems = SystemManager(m)
    if m.timestep != 0 or m.timestep != m.systems.timestep:
        problems.append(f"after replacing the scheduler model.timestep={m.timestep}")
    m.systems.add_system(Rec('a', m, log, start=1))
    m.execute(3)
    if m.timestep != 3 or old.timestep != 5 or len(log) != 7:
        problems.append(f"new scheduler: {m.timestep}, old {old.timestep}, runs {len(log)}")
    try:
        m.timestep = 7  # Model has __slots__: the alias is read-only on a plain Model
        problems.append("model.timestep is assignable on a plain Model and now shadows the scheduler's clock")
    except AttributeError:
        pass
    return problems


def e20_hash_seed_independence():
    """the schedule of a mixed-id model does not depend on PYTHONHASHSEED"""
    code = textwrap.dedent('''
        from ECAgent.Core import Model, System
        log = []
        class R(System):
            def execute(self): log.append((self.model.timestep, type(self.id).__name__, len(str(self.id))))
        m = Model()
        for k, sid in enumerate(['a', 'b', 'zz', 'x' * 40, 7, (1, 2), frozenset('ab')]):
            m.systems.add_system(R(sid, m, start=k - 3, frequency=1 + k % 4, end=20 - k, priority=k % 3))
        m.execute(12)
        m.systems.remove_system('zz')
        m.execute(12)
        print(m.timestep, log)
    ''')
    outs = set()
    for seed in ('0', '1', '12345', 'random'):
        env = dict(os.environ, PYTHONPATH=HERE, PYTHONHASHSEED=seed)
        res = subprocess.run([sys.executable, '-c', code], capture_output=True, text=True, timeout=60, env=env)
        if res.returncode:
            return [f"seed {seed}: {res.stderr[-300:]}"]
        outs.add(res.stdout)
    return [] if len(outs) == 1 else ["schedule depends on the hash seed"]


def e21_decoder_built_model():
    """a model assembled by JsonDecoder (CRLF json) schedules its systems by their windows"""
    problems = []
    code = textwrap.dedent('''
        import sys, json
        from ECAgent.Core import Model, System
        from ECAgent.Decode import JsonDecoder, IDecodable
        LOG = []
        class M(Model, IDecodable):
            @staticmethod
            def decode(params): return M()
        class S(System, IDecodable):
            def execute(self): LOG.append((self.model.timestep, self.id))
            @staticmethod
            def decode(p): return S(p['id'], p['model'], start=p['start'], end=p['end'], frequency=p['frequency'])
        if __name__ == '__main__':
            m = JsonDecoder().decode(sys.argv[1])
            m.execute(12)
            print(json.dumps([m.timestep, LOG]))
    ''')
    data = {"model": {"name": "M", "params": {}},
            "systems": [{"name": "S", "params": {"id": "s1", "start": -1, "end": 7, "frequency": 3}},
                        {"name": "S", "params": {"id": "s2", "start": 4, "end": 3, "frequency": 1}},
                        {"name": "S", "params": {"id": "s3", "start": 10, "end": 9223372036854775807, "frequency": 1}}],
            "agents": []}
    import json
    with tempfile.TemporaryDirectory() as d:
        jp = os.path.join(d, 'm.json')
        with open(jp, 'w', newline='') as f:
            f.write(json.dumps(data, indent=1).replace('\n', '\r\n'))
        sp = os.path.join(d, 'dec.py')
        with open(sp, 'w') as f:
            f.write(code)
        res = subprocess.run([sys.executable, sp, jp], capture_output=True, text=True, timeout=60,
                             env=dict(os.environ, PYTHONPATH=HERE))
    if res.returncode:
        return [res.stderr[-400:]]
    t, log = json.loads(res.stdout)
    exp = [[2, 's1'], [5, 's1'], [10, 's3'], [11, 's3']]
    if t != 12 or sorted(log) != exp:
        problems.append(f"timestep {t}, log {sorted(log)} expected {exp}")
    return problems


def e22_execute_from_inside_other_callbacks():
    """registration at many different timesteps after the start keeps the phase (t - start) % frequency"""
    problems = []
    for reg_at in range(0, 15):
        for start in (-6, 0, 3, 14, 20):
            for freq in (1, 2, 3, 7):
                m = Model()
                log = []
                m.execute(reg_at) if reg_at else None
                m.systems.add_system(Rec('a', m, log, start=start, frequency=freq, end=start + 13))
                m.execute(30)
                exp = [t for t in range(reg_at, reg_at + 30) if due(start, start + 13, freq, t)]
                if [t for t, _ in log] != exp:
                    problems.append(f"reg_at={reg_at} start={start} freq={freq}: {[t for t, _ in log]} != {exp}")
    return problems[:5]


def e23_throw_error_flag_values():
    """execute_systems(throw_error=<anything>) on a running model is an ordinary single step"""
    problems = []
    for flag in (True, False, 0, 1, 5, None, 'x', [], object()):
        m = Model()
        log = []
        m.systems.add_system(Rec('a', m, log))
        m.systems.execute_systems(flag)
        m.systems.execute_systems(throw_error=flag)
        if m.timestep != 2 or len(log) != 2:
            problems.append(f"flag {flag!r}: timestep {m.timestep}, runs {len(log)}")
    return problems


def e24_custom_logger_and_seed_do_not_affect_clock():
    """falsy custom logger / seeds / model re-used after being handed to other objects"""
    import logging
    problems = []

    class QuietLogger(logging.Logger):
        def __bool__(self):
            return False

    for kw in (dict(logger=QuietLogger('q')), dict(seed=0), dict(seed=None), dict(seed='abc')):
        m = Model(**kw)
        log = []
        m.systems.add_system(Rec('a', m, log, start=1, end=2))
        m.execute(4)
        m.complete()
        m.execute(4)
        if m.timestep != 4 or [t for t, _ in log] != [1, 2]:
            problems.append(f"{kw}: timestep {m.timestep} log {log}")
    return problems


if __name__ == '__main__':
    print("ECAgent under test:", ECAgent.__file__)
    if not os.path.abspath(ECAgent.__file__).startswith(HERE):
        print("WARNING: not testing the copy in", HERE, "- run with PYTHONPATH=" + HERE)
    for fn in (e01_random_differential, e02_n_steps_equal_n_single_steps, e03_bad_n_rejected_and_harmless,
               e04_huge_and_negative_clock):
        experiment(fn)
    e04b_default_end_is_not_forever_past_maxsize()
    for fn in (e05_int_like_window_values, e06_windows_mutated_while_running,
               e07_mid_timestep_registration_and_removal, e08_one_system_two_models, e09_many_models_interleaved,
               e10_completion_inside_a_step, e11_copies_and_pickles_continue_identically,
               e12_awkward_but_legal_subclasses_and_ids):
        experiment(fn)
    e13_exception_inside_a_step()
    e14_add_system_error_path()
    e15_id_changed_after_registration()
    for fn in (e16_real_multiprocessing, e17_builtin_collectors_forward_their_windows, e18_deprecated_aliases,
               e19_replaced_scheduler_and_environment, e20_hash_seed_independence, e21_decoder_built_model,
               e22_execute_from_inside_other_callbacks, e23_throw_error_flag_values,
               e24_custom_logger_and_seed_do_not_affect_clock):
        experiment(fn)
    print()
    print(f"{len(VIOLATIONS)} violation(s), {len(NOTES)} note(s) (notes are outside the stated scope / unspecified)")
    sys.exit(1 if VIOLATIONS else 0)
