"""Second-pass bug hunt for the property

    "Same seed, same trajectory - independent of global state and other models"

Run with:   cd /tmp/wt-C07-i && PYTHONPATH=/tmp/wt-C07-i /venv/bin/python hunt.py

Every experiment prints OK, NOTE (observation outside the stated scope, not counted) or VIOLATION.
Exit status is 1 iff at least one genuine, in-scope violation was found.
"""
import copy
import hashlib
import io
import json
import logging
import os
import pickle
import random
import subprocess
import sys
import tempfile
import threading
import warnings

import numpy as np

import ECAgent.Core as core
import ECAgent.Tags as Tags
import ECAgent.Batching as batching
import ECAgent.Collectors as collectors
import ECAgent.Decode as decode
from ECAgent.Environments import (GridWorld, LineWorld, DiscreteWorld, SpaceWorld, PositionComponent)

HERE = os.path.dirname(os.path.abspath(__file__))
PY = sys.executable

# ---------------------------------------------------------------------------------------------------------------------
# A small zoo of models: plain / line / grid / cube / continuous (wrapped or not) worlds, varying population and
# system mix. Everything random goes through the framework (get_random_agent / shuffle) or through model.random.
# ---------------------------------------------------------------------------------------------------------------------

for _t in ('WOLF', 'SHEEP'):
    try:
        Tags.add_tag(_t)
    except Tags.DuplicateTagError:
        pass


class Energy(core.Component):
    def __init__(self, agent, model, e):
        super().__init__(agent, model)
        self.e = e


class Marker(core.Component):
    def __init__(self, agent, model):
        super().__init__(agent, model)
        self.hits = 0


class Sheep(core.Agent):
    pass


class Wolf(core.Agent):
    pass


def _pos(agent):
    p = agent[PositionComponent]
    return None if p is None else p.xyz()


class MoveSystem(core.System):
    """Shuffles everybody (framework) and moves them by a draw from the model's generator."""
    def execute(self):
        env = self.model.environment
        order = env.shuffle()
        self.model.trace.append(('shuffle', [a.id for a in order]))
        if isinstance(env, SpaceWorld):
            for a in order:
                if isinstance(env, DiscreteWorld):
                    env.move(a, self.model.random.randint(-1, 1), self.model.random.randint(-1, 1),
                             self.model.random.randint(-1, 1))
                else:
                    env.move(a, self.model.random.uniform(-1.5, 1.5), self.model.random.uniform(-1.5, 1.5), 0)
            self.model.trace.append(('pos', [(a.id, _pos(a)) for a in env.get_agents()]))


class PickSystem(core.System):
    """Picks random agents with every kind of filter."""
    def execute(self):
        env = self.model.environment
        picks = []
        for args, tag in (((), None), ((Energy,), None), ((Energy, Marker), None), ((), Tags.WOLF), ((), 0),
                          ((Marker,), Tags.SHEEP), ((), 99)):
            a = env.get_random_agent(*args, tag=tag)
            if a is not None and Marker in a:
                a[Marker].hits += 1
            picks.append(None if a is None else a.id)
        self.model.trace.append(('pick', picks))
        self.model.trace.append(('tagshuffle', [a.id for a in env.shuffle(Energy, tag=Tags.SHEEP)]))


class BirthDeathSystem(core.System):
    """Removes a random agent and adds a new one (ids are reused every 7 births)."""
    def execute(self):
        env = self.model.environment
        victim = env.get_random_agent(Energy)
        if victim is not None and len(env) > 2:
            env.remove_agent(victim.id)
            self.model.trace.append(('death', victim.id))
        parent = env.get_random_agent(tag=Tags.SHEEP)
        if parent is not None:
            self.model.births += 1
            self.model.spawn('b%d' % (self.model.births % 7 + 100 * (self.model.births % 3)), Sheep, Tags.SHEEP,
                             skip_if_exists=True)


class TraceCollector(collectors.Collector):
    def collect(self):
        self.records.append(list(self.model.trace))
        del self.model.trace[:]


class Stopper(core.System):
    def execute(self):
        if self.model.systems.timestep + 1 >= self.model.steps:
            self.model.complete()


class ZooModel(core.Model):
    def __init__(self, seed=None, world='plain', pop=10, mix='MPBC', steps=12, hook=None):
        super().__init__(seed=seed)
        self.trace = []
        self.births = 0
        self.steps = steps
        self.hook = hook
        self.world = world
        if world == 'plain':
            pass
        elif world == 'line':
            self.set_environment(LineWorld(self, 9))
        elif world == 'grid':
            self.environment = GridWorld(self, 7, 5)
        elif world == 'gridwrap':
            self.environment = GridWorld(self, 7, 5, wrap_env=True)
        elif world == 'cube':
            self.environment = DiscreteWorld(self, 4, 3, 3)
        elif world == 'space':
            self.environment = SpaceWorld(self, 10.0, 8.0)
        elif world == 'spacewrap':
            self.environment = SpaceWorld(self, 10.0, 8.0, 0.0, wrap_env=True)
        else:
            raise ValueError(world)
        for i in range(pop):
            cls, tag = (Wolf, Tags.WOLF) if i % 3 == 0 else (Sheep, Tags.SHEEP)
            self.spawn('a%d' % i, cls, tag, marker=(i % 2 == 0), energy=(i % 4 != 1))
        prio = 10
        if 'M' in mix:
            self.systems.add_system(MoveSystem('move', self, priority=prio))
        if 'P' in mix:
            self.systems.add_system(PickSystem('pick', self, priority=prio, frequency=2))  # equal priority: join order
        if 'B' in mix:
            self.systems.add_system(BirthDeathSystem('bd', self, priority=5, start=1))
        if 'H' in mix:
            self.systems.add_system(HookSystem('hook', self, priority=7))
        self.systems.add_system(TraceCollector('trace', self, priority=-5))
        self.systems.add_system(Stopper('stop', self, priority=-10))

    def spawn(self, aid, cls, tag, marker=True, energy=True, skip_if_exists=False):
        env = self.environment
        if skip_if_exists and env.get_agent(aid) is not None:
            return
        a = cls(aid, self, tag=tag)
        if energy:
            a.add_component(Energy(a, self, self.random.random()))
        if marker:
            a.add_component(Marker(a, self))
        if isinstance(env, DiscreteWorld):
            env.add_agent(a, self.random.randrange(max(env.width, 1)), self.random.randrange(max(env.height, 1)),
                          self.random.randrange(max(env.depth, 1)))
        elif isinstance(env, SpaceWorld):
            env.add_agent(a, self.random.uniform(0, env.width), self.random.uniform(0, env.height), 0)
        else:
            env.add_agent(a)
        self.trace.append(('birth', aid))


class HookSystem(core.System):
    """Calls model.hook(model) from inside the running timestep (used to perturb ambient state mid-step)."""
    def execute(self):
        if self.model.hook is not None:
            self.model.hook(self.model)


def run(seed, world='plain', pop=10, mix='MPBC', steps=12, between=None, hook=None):
    """Builds and runs a ZooModel; ``between(model)`` is called between steps. Returns the trajectory."""
    m = ZooModel(seed, world, pop, mix, steps, hook=hook)
    while m.is_running():
        m.execute()
        if between is not None:
            between(m)
    return m.systems['trace'].records


def digest(traj):
    return hashlib.sha256(repr(traj).encode()).hexdigest()[:16]


WORLDS = ('plain', 'line', 'grid', 'gridwrap', 'cube', 'space', 'spacewrap')
MIXES = ('MPB', 'M', 'P', 'PB', 'MB', 'B')
POPS = (0, 1, 2, 7, 23)

# ---------------------------------------------------------------------------------------------------------------------
# Reporting helpers
# ---------------------------------------------------------------------------------------------------------------------
VIOLATIONS = []
NOTES = []


def report(name, problems, note=False):
    if not problems:
        print('[OK]        %s' % name)
    elif note:
        NOTES.append(name)
        print('[NOTE]      %s (outside the stated scope - not counted)' % name)
        for p in problems[:5]:
            print('              ' + str(p))
    else:
        VIOLATIONS.append(name)
        print('[VIOLATION] %s' % name)
        for p in problems[:8]:
            print('              ' + str(p))


def experiment(fn):
    try:
        fn()
    except Exception as e:  # An unexpected crash of an experiment is reported, but it is not a verdict by itself
        import traceback
        traceback.print_exc()
        print('[ERROR]     %s crashed: %r' % (fn.__name__, e))
        VIOLATIONS.append(fn.__name__ + ' (crashed)')


# ---------------------------------------------------------------------------------------------------------------------
# Experiments
# ---------------------------------------------------------------------------------------------------------------------

def scramble_globals(_m=None):
    random.seed(os.urandom(8))
    random.random()
    random.shuffle(list(range(10)))
    np.random.seed(int.from_bytes(os.urandom(4), 'little'))
    np.random.rand(3)


def e01_baseline_matrix():
    """Same seed twice -> identical; different seeds -> (almost always) different; over the whole config matrix."""
    bad = []
    n = 0
    for world in WORLDS:
        for mix in MIXES:
            for pop in POPS:
                for seed in (0, 1, 7, 2 ** 70 + 3, -5):
                    n += 1
                    a = run(seed, world, pop, mix, steps=8)
                    b = run(seed, world, pop, mix, steps=8)
                    if a != b:
                        bad.append('run(%r,%r,%r,%r) twice differs' % (seed, world, pop, mix))
    # sanity: the trajectories really are seed dependent (otherwise the experiments would be vacuous)
    if run(1, 'grid', 23, 'MPB') == run(2, 'grid', 23, 'MPB'):
        bad.append('sanity: seeds 1 and 2 gave the same trajectory - the experiment is vacuous')
    report('e01 same seed twice, %d configurations (world x mix x population x seed)' % n, bad)


def e02_global_rng_perturbation():
    """Reseed / consume random and numpy.random before the run, between every step, and inside the timestep."""
    bad = []
    for world in WORLDS:
        for seed in (0, 3, 11):
            ref = run(seed, world, 9, 'MPBH')
            random.seed(12345)
            np.random.seed(12345)
            a = run(seed, world, 9, 'MPBH')
            b = run(seed, world, 9, 'MPBH', between=scramble_globals)
            c = run(seed, world, 9, 'MPBH', hook=scramble_globals)
            random.seed(seed)  # the very same seed on the global generator must not matter either
            d = run(seed, world, 9, 'MPBH')
            for name, t in (('reseeded before', a), ('scrambled between steps', b), ('scrambled inside the timestep', c),
                            ('global generator seeded with the same seed', d)):
                if t != ref:
                    bad.append('%s, seed %r, %s: trajectory differs' % (world, seed, name))
    report('e02 reseeding / consuming random and numpy.random before, between and inside timesteps', bad)


def e03_globals_untouched():
    """The framework must not draw from (or reseed) the global generators: their state is bit-identical afterwards."""
    bad = []
    for world in WORLDS:
        random.seed(99)
        np.random.seed(99)
        s_py, s_np = random.getstate(), np.random.get_state()
        run(5, world, 12, 'MPB')
        batching.batch_run(ZooModel, {'seed': [1, 2], 'world': world, 'steps': 4}, collectors='trace')
        if random.getstate() != s_py:
            bad.append('%s: the state of the global random generator changed' % world)
        n_np = np.random.get_state()
        if not (s_np[0] == n_np[0] and (s_np[1] == n_np[1]).all() and s_np[2:] == n_np[2:]):
            bad.append('%s: the state of numpy.random changed' % world)
    report('e03 a run (and an in-process batch_run) leaves random / numpy.random state untouched', bad)


def e04_globals_poisoned():
    """Replace the module level functions of random / numpy.random by bombs: the framework never calls them."""
    bad = []
    names = ['random', 'choice', 'shuffle', 'randint', 'randrange', 'sample', 'uniform', 'getrandbits', 'choices']
    saved = {n: getattr(random, n) for n in names}
    np_names = ['rand', 'random', 'choice', 'shuffle', 'randint', 'permutation']
    np_saved = {n: getattr(np.random, n) for n in np_names}

    def bomb(*a, **k):
        raise AssertionError('global generator used')
    ref = {w: run(4, w, 9, 'MPB') for w in WORLDS}
    try:
        for n in names:
            setattr(random, n, bomb)
        for n in np_names:
            setattr(np.random, n, bomb)
        for w in WORLDS:
            try:
                if run(4, w, 9, 'MPB') != ref[w]:
                    bad.append('%s: trajectory differs' % w)
            except AssertionError as e:
                bad.append('%s: %s' % (w, e))
    finally:
        for n in names:
            setattr(random, n, saved[n])
        for n in np_names:
            setattr(np.random, n, np_saved[n])
    report('e04 global random / numpy.random functions replaced by bombs during a run', bad)


def e05_interleaving_other_models():
    """Other models (same class, same or different seed, other worlds) are built and stepped in between."""
    bad = []
    for world in WORLDS:
        ref = run(21, world, 10, 'MPBH')
        others = []

        def meddle(_m):
            # build a new model, step all existing ones a bit, including one with the *same* seed
            others.append(ZooModel(len(others), WORLDS[len(others) % len(WORLDS)], 6, 'MPB', steps=50))
            others.append(ZooModel(21, world, 10, 'MPB', steps=50))
            for o in others:
                o.execute(1 + len(others) % 3)
                o.environment.get_random_agent()
                o.environment.shuffle()

        if run(21, world, 10, 'MPBH', between=meddle) != ref:
            bad.append('%s: other models stepped between steps change the trajectory' % world)
        del others[:]
        if run(21, world, 10, 'MPBH', hook=meddle) != ref:
            bad.append('%s: other models stepped from inside the timestep change the trajectory' % world)
    # lock-step interleaving of two models with the same seed: both equal the solo run
    for world in WORLDS:
        ref = run(8, world, 10, 'MPB')
        a, b = ZooModel(8, world, 10, 'MPB'), ZooModel(8, world, 10, 'MPB')
        while a.is_running() or b.is_running():
            a.execute()
            b.execute()
            b.execute()
        if a.systems['trace'].records != ref or b.systems['trace'].records != ref:
            bad.append('%s: two interleaved models with the same seed deviate from the solo run' % world)
    report('e05 arbitrary interleaving with the building / stepping of other models', bad)


def e06_threads():
    """Models stepped concurrently in threads (each has its own generator)."""
    bad = []
    ref = {s: run(s, 'grid', 15, 'MPB', steps=30) for s in range(6)}
    out = {}

    def work(s):
        out[s] = run(s, 'grid', 15, 'MPB', steps=30, between=scramble_globals)
    old = sys.getswitchinterval()
    sys.setswitchinterval(1e-6)
    try:
        ts = [threading.Thread(target=work, args=(s,)) for s in range(6)]
        [t.start() for t in ts]
        [t.join(120) for t in ts]
    finally:
        sys.setswitchinterval(old)
    for s in range(6):
        if out.get(s) != ref[s]:
            bad.append('seed %d: trajectory in a thread differs' % s)
    report('e06 six models stepped concurrently in threads (switch interval 1us)', bad)


CHILD_CODE = r'''
import sys, json
sys.path.insert(0, %(here)r)
import hunt
cfgs = json.loads(sys.argv[1])
print(json.dumps([hunt.digest(hunt.run(*c)) for c in cfgs]))
'''


def _child_digests(cfgs, hashseed, timeout=300):
    env = dict(os.environ, PYTHONPATH=HERE)
    if hashseed is None:
        env.pop('PYTHONHASHSEED', None)
    else:
        env['PYTHONHASHSEED'] = str(hashseed)
    p = subprocess.run([PY, '-c', CHILD_CODE % {'here': HERE}, json.dumps(cfgs)], env=env, cwd=HERE,
                       capture_output=True, text=True, timeout=timeout)
    if p.returncode != 0:
        raise RuntimeError('child failed: ' + p.stderr[-2000:])
    return json.loads(p.stdout.strip().splitlines()[-1])


def e07_hash_seed_and_fresh_interpreter():
    """Fresh interpreters with different PYTHONHASHSEED values (incl. random) reproduce the in-process trajectory.
    String seeds are included (str seeds are hashed with sha512, not with hash())."""
    cfgs = [[s, w, 9, 'MPB'] for w in WORLDS for s in (0, 17, 'a string seed', 2.5)]
    here = [digest(run(*c)) for c in cfgs]
    bad = []
    for hs in (0, 1, 4242, 'random', None):
        there = _child_digests(cfgs, hs)
        for c, x, y in zip(cfgs, here, there):
            if x != y:
                bad.append('PYTHONHASHSEED=%s: run%r differs from this process' % (hs, tuple(c)))
    report('e07 fresh interpreter, PYTHONHASHSEED in {0,1,4242,random,unset}, int/str/float seeds', bad)


MP_CHILD = r'''
import sys, json
sys.path.insert(0, %(here)r)
import multiprocessing as mp
import hunt, random
import numpy as np
import ECAgent.Batching as batching

def score(m):
    return hunt.digest(m.systems['trace'].records)

if __name__ == '__main__':
    method, procs = sys.argv[1], int(sys.argv[2])
    mp.set_start_method(method)
    random.seed(1); np.random.seed(1)
    params = {'seed': list(range(6)), 'world': ['grid', 'space', 'plain'], 'pop': 8, 'mix': 'MPB', 'steps': 6}
    res = batching.batch_run(hunt.ZooModel, params, collectors='trace', processes=procs, repetitions=2)
    best, allres = batching.grid_search(hunt.ZooModel, dict(params), score, processes=procs, repetitions=2)
    print(json.dumps({'batch': [hunt.digest(r) for r in res],
                      'grid': [[r['seed'], r['world'], r['records']] for r in allres]}))
'''


def e08_batch_workers():
    """batch_run / grid_search in real worker processes (fork and spawn, processes 2 and 3) against in-process runs."""
    bad, notes = [], []
    expected = {}
    for s in range(6):
        for w in ('grid', 'space', 'plain'):
            expected[(s, w)] = digest(run(s, w, 8, 'MPB', steps=6))
    order_differs = False
    for method, procs in (('fork', 2), ('fork', 3), ('spawn', 2), ('forkserver', 3)):
        with tempfile.NamedTemporaryFile('w', suffix='.py', dir=HERE, delete=False) as f:
            f.write(MP_CHILD % {'here': HERE})
            script = f.name
        try:
            p = subprocess.run([PY, script, method, str(procs)], env=dict(os.environ, PYTHONPATH=HERE), cwd=HERE,
                               capture_output=True, text=True, timeout=600)
        except subprocess.TimeoutExpired:
            bad.append('%s/%d: timed out' % (method, procs))
            continue
        finally:
            os.unlink(script)
        if p.returncode != 0:
            bad.append('%s/%d: child failed: %s' % (method, procs, p.stderr[-500:]))
            continue
        out = json.loads(p.stdout.strip().splitlines()[-1])
        # grid_search keeps the order (imap) and carries the parameters: exact comparison
        for seed, world, recs in out['grid']:
            if recs != [expected[(seed, world)]] * 2:
                bad.append('%s/%d grid_search: seed %r world %r: worker trajectory differs' % (method, procs, seed, world))
        # batch_run: compare as multisets (see the note below about the order)
        inproc = [expected[(s, w)] for s in range(6) for w in ('grid', 'space', 'plain')] * 2
        if sorted(out['batch']) != sorted(inproc):
            bad.append('%s/%d batch_run: the set of worker trajectories differs from the in-process ones' % (method, procs))
        elif out['batch'] != inproc:
            order_differs = True
    report('e08 batch_run / grid_search in worker processes (fork, spawn, forkserver; 2-3 processes)', bad)
    if order_differs:
        report('e08b batch_run(processes>1) returns the (identical) per-model records in completion order '
               '(imap_unordered), not in parameter order',
               ['every individual trajectory is identical to the in-process one; only the position in the result '
                'list varies. The property speaks about a model\'s trajectory, not about the result order.'], note=True)


def e09_seed_values():
    """Falsy, boolean, negative, huge, float, negative zero, str, str subclass, bytes, numpy seeds."""
    bad = []

    class MyStr(str):
        pass
    seeds = [0, False, True, 1, -1, 2 ** 200, -2 ** 200, 0.0, -0.0, 1.0, 2.5, float('inf'), '', 'x', MyStr('x'), b'',
             b'xy', bytearray(b'xy'), np.float64(2.5), np.float64(-0.0)]
    for s in seeds:
        a, b = run(s, 'grid', 8, 'MPB'), run(copy.copy(s), 'grid', 8, 'MPB', between=scramble_globals)
        if a != b:
            bad.append('seed %r (%s): two runs differ' % (s, type(s).__name__))
    # seed 0 / False / '' must be honoured (not mistaken for "no seed")
    for s in (0, False, '', b'', 0.0):
        if run(s, 'plain', 8, 'MP') != run(s, 'plain', 8, 'MP'):
            bad.append('falsy seed %r is not honoured' % (s,))
    # numpy integer seeds: CPython 3.11+ rejects them (TypeError) - deterministic, hence no reproducibility issue
    for s in (np.int64(3), np.uint8(3)):
        try:
            a, b = run(s, 'plain', 8, 'MP'), run(s, 'plain', 8, 'MP')
            if a != b:
                bad.append('numpy seed %r: two runs differ' % (s,))
        except TypeError:
            pass
    # unsupported seed types (would be hashed - hash seed dependent - on old Pythons) are rejected outright
    for s in (('a', 1), frozenset({'a'}), object()):
        try:
            ZooModel(s)
            a, b = run(s, 'plain', 8, 'MP'), run(s, 'plain', 8, 'MP')
            if a != b:
                bad.append('seed %r accepted but not reproducible' % (s,))
        except TypeError:
            pass
    report('e09 seed values: 0/False/True/negative/huge/float/-0.0/inf/str/str subclass/bytes/numpy', bad)


def e10_draw_edge_cases():
    """Empty filter consumes nothing; one candidate; completed model; draws do not depend on anything but the state."""
    bad = []
    m = core.Model(seed=5)
    s0 = m.random.getstate()
    for _ in range(3):
        if m.environment.get_random_agent() is not None or m.environment.shuffle() != []:
            bad.append('empty environment returned something')
        m.environment.get_random_agent(Energy, tag=7)
    if m.random.getstate() != s0:
        bad.append('draws from an empty candidate list consume the generator (harmless, but noted)')
    # identical generator state + identical candidates => identical pick, also on a completed model
    for k in (1, 2, 3, 10):
        picks = []
        for rep in range(2):
            m = core.Model(seed=9)
            for i in range(k):
                m.environment.add_agent(core.Agent('x%d' % i, m))
            if rep:
                m.complete()
                m.execute()  # no-op on a completed model: must not consume randomness
            picks.append([m.environment.get_random_agent().id for _ in range(20)] +
                         [a.id for a in m.environment.shuffle()])
        if picks[0] != picks[1]:
            bad.append('population %d: completed model draws differently from a running one' % k)
    report('e10 empty / single candidate, completed model, no-op execute', bad)


def e11_environments():
    """Replaced environments, environments that are not model.environment, nested environments; the generator used
    is always the one of the environment's model (set_environment without set_model is known / out of scope)."""
    bad = []

    def scenario(perturb):
        a, b = core.Model(seed=1), core.Model(seed=2)
        side = GridWorld(a, 4, 4, id='SIDE')          # belongs to a, is never a.environment
        nested = core.Environment(a, id='NESTED')
        a.environment.add_agent(nested)               # an environment is an agent
        new_env = SpaceWorld(a, 5.0, 5.0)
        a.set_environment(new_env)                    # replaced (constructed with model a)
        out = []
        for i in range(6):
            side.add_agent(core.Agent('s%d' % i, a), i % 4, i // 4)
            nested.add_agent(core.Agent('n%d' % i, a))
            new_env.add_agent(core.Agent('e%d' % i, a), i * 0.5, i * 0.25)
            b.environment.add_agent(core.Agent('b%d' % i, b))
        for i in range(10):
            if perturb:
                scramble_globals()
                b.environment.shuffle()
                b.environment.get_random_agent()
            out.append((side.get_random_agent().id, [x.id for x in nested.shuffle()],
                        a.environment.get_random_agent(PositionComponent).id, [x.id for x in side.shuffle()]))
        return out
    if scenario(False) != scenario(True):
        bad.append('side / nested / replaced environments of model a are influenced by model b or the globals')
    # env.set_model(): after re-homing an environment it must draw from the new model only
    def rehome(perturb):
        a, b = core.Model(seed=1), core.Model(seed=2)
        env = GridWorld(a, 3, 3)
        for i in range(5):
            env.add_agent(core.Agent('r%d' % i, b), i % 3, i // 3)
        env.set_model(b)
        b.set_environment(env)
        out = []
        for i in range(10):
            if perturb:
                a.random.random()
                a.environment.shuffle()
            out.append((b.environment.get_random_agent().id, [x.id for x in b.environment.shuffle()]))
        return out
    if rehome(False) != rehome(True):
        bad.append('an environment re-homed with set_model() still depends on its former model')
    report('e11 replaced / side / nested / re-homed environments draw from their own model only', bad)


def e12_checkpoint_copy_pickle():
    """deepcopy / pickle of a model in mid-run: the copy continues exactly like the original (also in another
    process, with another hash seed)."""
    bad = []
    for world in WORLDS:
        ref = run(13, world, 9, 'MPB', steps=14)
        m = ZooModel(13, world, 9, 'MPB', steps=14)
        m.execute(6)
        c1 = copy.deepcopy(m)
        c2 = pickle.loads(pickle.dumps(m))
        blob = pickle.dumps(m)
        for name, x in (('original', m), ('deepcopy', c1), ('pickle round trip', c2)):
            scramble_globals()
            while x.is_running():
                x.execute()
            if x.systems['trace'].records != ref:
                bad.append('%s: %s continues differently' % (world, name))
        code = ('import sys,pickle; sys.path.insert(0,%r); import hunt\n'
                'm=pickle.loads(sys.stdin.buffer.read())\n'
                'while m.is_running(): m.execute()\n'
                'print(hunt.digest(m.systems["trace"].records))' % HERE)
        p = subprocess.run([PY, '-c', code], input=blob, env=dict(os.environ, PYTHONPATH=HERE, PYTHONHASHSEED='77'),
                           cwd=HERE, capture_output=True, timeout=120)
        if p.returncode != 0:
            bad.append('%s: child failed %s' % (world, p.stderr[-300:]))
        elif p.stdout.decode().strip() != digest(ref):
            bad.append('%s: model pickled to another interpreter continues differently' % world)
    report('e12 checkpoints: deepcopy / pickle in mid-run, continued here and in another interpreter', bad)


def e13_error_paths():
    """Half completed operations (duplicate agent, out-of-map position, system raising in mid-timestep) do not make
    two equally treated runs diverge, and failing operations do not consume randomness."""
    bad = []

    class Boom(core.System):
        def execute(self):
            if self.model.systems.timestep in (2, 5) and not getattr(self.model, 'boomed_%d' % self.model.systems.timestep, False):
                setattr(self.model, 'boomed_%d' % self.model.systems.timestep, True)
                raise RuntimeError('boom')

    def scenario(world, perturb):
        m = ZooModel(3, world, 8, 'MPB', steps=10)
        m.systems.add_system(Boom('boom', m, priority=6))
        while m.is_running():
            try:
                m.execute()
            except RuntimeError:
                pass
            s = m.random.getstate()
            try:
                m.environment.add_agent(m.environment.get_agents()[0])
            except core.DuplicateAgentError:
                pass
            if isinstance(m.environment, SpaceWorld):
                try:
                    m.environment.add_agent(core.Agent('outside', m), -3, 0)
                except Exception:
                    pass
            try:
                m.environment.remove_agent('nobody')
            except core.AgentNotFoundError:
                pass
            if m.random.getstate() != s:
                bad.append('%s: failing operations consumed randomness' % world)
            if perturb:
                scramble_globals()
        return m.systems['trace'].records
    for w in WORLDS:
        if scenario(w, False) != scenario(w, True):
            bad.append('%s: runs with errors diverge' % w)
    report('e13 error paths (system raising in mid-step, duplicate agent, off-map position, unknown agent)', bad)


def e14_class_level_and_tag_state():
    """Other models registering tags, touching *other* agent classes' default tag / class components, and logging
    configuration do not influence a model."""
    bad = []
    ref = run(31, 'grid', 10, 'MPBH')
    counter = [0]

    def meddle(_m):
        counter[0] += 1
        Tags.add_tag('T%d_%d' % (os.getpid(), counter[0]) + ''.join(random.choice('abc') for _ in range(6)))

        class Other(core.Agent):
            pass
        Other.tag = counter[0]
        Other.add_class_component(Marker(Other, _m))
        lib = Tags.TagLibrary()
        lib.add_tag('X')
        logging.getLogger('MODEL').setLevel(logging.DEBUG if counter[0] % 2 else logging.ERROR)
        o = core.Model(seed=counter[0], logger=logging.getLogger('other'))
        o.environment.add_agent(Other('o', o))
        o.environment.get_random_agent(tag=counter[0])
    if run(31, 'grid', 10, 'MPBH', between=meddle, hook=meddle) != ref:
        bad.append('tags / agent classes / loggers created in between change the trajectory')
    report('e14 tags, agent classes, class components, loggers created by other models in between', bad)


def e15_deprecated_alias_and_subclasses():
    """getRandomAgent (deprecated alias) draws from the model generator; Model / Environment subclasses."""
    bad = []

    class SlotModel(core.Model):
        __slots__ = ['extra']

    class MyEnv(core.Environment):
        pass

    def scenario(perturb):
        m = SlotModel(seed=4)
        m.set_environment(MyEnv(m))
        for i in range(9):
            m.environment.add_agent(core.Agent(i, m, tag=i % 2))   # int ids
        out = []
        with warnings.catch_warnings():
            warnings.simplefilter('ignore')
            for _ in range(15):
                if perturb:
                    scramble_globals()
                out.append(m.environment.getRandomAgent().id)
                out.append(m.environment.get_random_agent(tag=1).id)
        return out
    if scenario(False) != scenario(True):
        bad.append('deprecated getRandomAgent / subclassed model is influenced by the global generators')
    report('e15 deprecated getRandomAgent alias, Model with __slots__, Environment subclass, int ids', bad)


class DecModel(core.Model, decode.IDecodable):
    def __init__(self, seed):
        super().__init__(seed=seed)
        self.trace = []

    @staticmethod
    def decode(params):
        return DecModel(params['seed'])


class DecAgent(core.Agent, decode.IDecodable):
    @staticmethod
    def decode(params):
        return DecAgent('d%d' % params['agent_index'], params['model'])


class DecSystem(core.System, decode.IDecodable):
    def execute(self):
        env = self.model.environment
        self.model.trace.append((env.get_random_agent().id, [a.id for a in env.shuffle()]))

    @staticmethod
    def decode(params):
        return DecSystem('dec', params['model'])


def e16_decoder():
    """A model built by the JSON decoder (LF and CRLF files) behaves like the directly built one."""
    bad = []
    spec = {'model': {'name': 'DecModel', 'module': __name__, 'params': {'seed': 6}},
            'systems': [{'name': 'DecSystem', 'module': __name__, 'params': {}}],
            'agents': [{'name': 'DecAgent', 'module': __name__, 'number': 8, 'params': {}}]}
    direct = DecModel(6)
    direct.systems.add_system(DecSystem('dec', direct))
    for i in range(8):
        direct.environment.add_agent(DecAgent('d%d' % i, direct))
    direct.execute(10)
    for newline in ('\n', '\r\n'):
        with tempfile.NamedTemporaryFile('w', suffix='.json', dir=HERE, delete=False, newline='') as f:
            f.write(json.dumps(spec, indent=2).replace('\n', newline))
            name = f.name
        try:
            scramble_globals()
            m = decode.JsonDecoder().decode(name)
            m.execute(10)
            if m.trace != direct.trace:
                bad.append('decoded model (%r line ends) differs from the directly built one' % newline)
        finally:
            os.unlink(name)
    report('e16 model built by JsonDecoder (LF / CRLF file) vs. built directly', bad)


class ListModel(core.Model):
    """A model that shuffles a list it was given (a realistic way of assigning names / positions)."""
    def __init__(self, seed, names):
        super().__init__(seed=seed)
        self.random.shuffle(names)  # in place!
        for n in names:
            self.environment.add_agent(core.Agent(n, self))
        self.systems.add_system(ListCollector('c', self))

    def is_running(self):
        return super().is_running() and self.systems.timestep < 1


class ListCollector(collectors.Collector):
    def collect(self):
        self.records.append([a.id for a in self.model.environment.shuffle()])


def e17_batch_shared_arguments():
    """Outside the scope (user code mutating its own input), recorded for completeness: batch_run hands the very same
    argument objects to every repetition when processes == 1, but pickled copies to worker processes."""
    code = ('import sys; sys.path.insert(0,%r); import hunt, json\n'
            'import ECAgent.Batching as b\n'
            'if __name__ == "__main__":\n'
            '    print(json.dumps(b.batch_run(hunt.ListModel, {"seed": 1, "names": [list("abcdef")]}, collectors="c",'
            ' processes=int(sys.argv[1]), repetitions=3)))' % HERE)
    outs = {}
    for procs in (1, 2):
        p = subprocess.run([PY, '-c', code, str(procs)], env=dict(os.environ, PYTHONPATH=HERE), cwd=HERE,
                           capture_output=True, text=True, timeout=120)
        if p.returncode != 0:
            raise RuntimeError(p.stderr[-500:])
        outs[procs] = json.loads(p.stdout.strip().splitlines()[-1])
    problems = []
    if not all(r == outs[2][0] for r in outs[2]) or not all(r == outs[1][0] for r in outs[1]):
        problems.append('repetitions with the same seed: processes=1 -> %r ; processes=2 -> %r' % (outs[1], outs[2]))
        problems.append('cause: the model mutates the list it was given and batch_run (simulation_kwargs * '
                        'repetitions) passes the same list object to every in-process repetition. The framework\'s '
                        'own draws are still taken from the model\'s generator, so this is not counted.')
    report('e17 batch_run repetitions share mutable argument objects in-process but not across workers', problems,
           note=True)


def e18_order_is_insertion_order():
    """The candidate list handed to choice/shuffle is in joining order whatever the ids hash to (hash-seed free):
    ids are strings, ints, tuples, floats, and objects with a constant hash."""
    bad = []

    class Collide:
        def __init__(self, n):
            self.n = n

        def __hash__(self):
            return 1

        def __eq__(self, other):
            return isinstance(other, Collide) and other.n == self.n

        def __repr__(self):
            return 'C%d' % self.n
    m = core.Model(seed=1)
    ids = ['zeta', 'alpha', 3, -1, (2, 'b'), 2.5, Collide(2), Collide(1), '', 0]
    for i in ids:
        m.environment.add_agent(core.Agent(i, m))
    if [a.id for a in m.environment.get_agents()] != ids:
        bad.append('get_agents() is not in joining order')
    m.environment.remove_agent('alpha')
    m.environment.add_agent(core.Agent('alpha', m))
    if [a.id for a in m.environment.get_agents()] != [i for i in ids if i != 'alpha'] + ['alpha']:
        bad.append('re-added agent is not at the end')
    report('e18 candidate order is joining order for str/int/tuple/float/colliding ids (nothing hash ordered)', bad)


def main():
    for fn in (e01_baseline_matrix, e02_global_rng_perturbation, e03_globals_untouched, e04_globals_poisoned,
               e05_interleaving_other_models, e06_threads, e07_hash_seed_and_fresh_interpreter, e08_batch_workers,
               e09_seed_values, e10_draw_edge_cases, e11_environments, e12_checkpoint_copy_pickle, e13_error_paths,
               e14_class_level_and_tag_state, e15_deprecated_alias_and_subclasses, e16_decoder,
               e17_batch_shared_arguments, e18_order_is_insertion_order):
        experiment(fn)
    print()
    print('genuine in-scope violations: %d %s' % (len(VIOLATIONS), VIOLATIONS if VIOLATIONS else ''))
    print('out-of-scope observations  : %d' % len(NOTES))
    return 1 if VIOLATIONS else 0


if __name__ == '__main__':
    import hunt  # run under the module name 'hunt' so that pickles / worker processes can find the classes
    sys.exit(hunt.main())
