#!/usr/bin/env python
"""Bug hunt for the property

    "Same seed, same trajectory - independent of global state and other models"

Run with:   cd /tmp/wt-C07-h && PYTHONPATH=/tmp/wt-C07-h /venv/bin/python hunt.py

Only the public API of ECAgent is used.  Every experiment prints OK or a description of the violation.
Exit status: 1 if at least one genuine violation was found, else 0.
"""
import copy
import hashlib
import itertools
import json
import os
import pickle
import random
import subprocess
import sys
import tempfile
import threading
import traceback

HERE = os.path.dirname(os.path.abspath(__file__))
if HERE not in sys.path[:1]:
    sys.path.insert(0, HERE)

import numpy as np  # noqa: E402

import ECAgent  # noqa: E402
import ECAgent.Tags as Tags  # noqa: E402
from ECAgent.Core import Model, Agent, Component, System, Environment  # noqa: E402
from ECAgent.Collectors import Collector, AgentCollector  # noqa: E402
from ECAgent.Environments import (  # noqa: E402
    SpaceWorld, DiscreteWorld, LineWorld, GridWorld, PositionComponent)
from ECAgent.Batching import batch_run, grid_search, ParameterList  # noqa: E402
from ECAgent.Decode import IDecodable, JsonDecoder  # noqa: E402

for _t in ('HUNT_A', 'HUNT_B'):
    try:
        Tags.add_tag(_t)
    except Tags.DuplicateTagError:
        pass

CHILD_TIMEOUT = 240


# --------------------------------------------------------------------------------------------------------------------
# A configurable model whose whole trajectory is logged
# --------------------------------------------------------------------------------------------------------------------

class Energy(Component):
    __slots__ = ['value']

    def __init__(self, agent, model, value=0):
        super().__init__(agent, model)
        self.value = value


class Walker(Agent):
    pass


class Sitter(Agent):  # No components in a plain world: len(agent) == 0, i.e. a falsy agent
    pass


WORLDS = ('plain', 'line', 'linewrap', 'grid', 'gridwrap', 'cube', 'cubewrap', 'space', 'spacewrap')
MIXES = ('full', 'shuffle', 'pick', 'churn')


class MoveSystem(System):
    def __init__(self, model):
        super().__init__('move', model, priority=5)

    def execute(self):
        m = self.model
        env = m.environment
        r = m.random
        order = env.shuffle()
        m.log.append(['shuffle', [a.id for a in order]])
        if isinstance(env, SpaceWorld):
            cont = not isinstance(env, DiscreteWorld)
            for a in order:
                if cont:
                    d = (r.uniform(-1.5, 1.5), r.uniform(-1.5, 1.5), r.uniform(-1.5, 1.5))
                else:
                    d = (r.choice((-1, 0, 1)), r.choice((-1, 0, 1)), r.choice((-1, 0, 1)))
                env.move(a, *d)
        m.log.append(['shuffle_E_A', [a.id for a in env.shuffle(Energy, tag=Tags.HUNT_A)]])
        m.log.append(['shuffle_t0', [a.id for a in env.shuffle(tag=0)]])


class PickSystem(System):
    def __init__(self, model):
        super().__init__('pick', model, priority=3)

    def execute(self):
        m = self.model
        env = m.environment
        picks = [env.get_random_agent(),
                 env.get_random_agent(Energy),
                 env.get_random_agent(tag=Tags.HUNT_B),
                 env.get_random_agent(Energy, tag=0),
                 env.get_random_agent(Energy, PositionComponent)]
        m.log.append(['pick', [None if p is None else p.id for p in picks]])
        if picks[1] is not None:
            picks[1][Energy].value += 1
        if isinstance(env, DiscreteWorld) and picks[0] is not None:
            nb = env.get_neighbours(picks[0][PositionComponent], radius=1, mode=m.random.choice(('moore', 'neumann')))
            m.log.append(['nb', m.random.choice(nb) if len(nb) else None])
        if isinstance(env, SpaceWorld) and picks[0] is not None:
            p = picks[0][PositionComponent]
            near = env.get_agents_at(p.x, p.y, p.z, leeway=1)
            m.log.append(['near', m.random.choice(near).id])


class ExtraSystem(System):
    def __init__(self, model, priority):
        super().__init__('extra', model, priority=priority)

    def execute(self):
        m = self.model
        m.log.append(['extra', [a.id for a in m.environment.shuffle(tag=Tags.HUNT_A)]])


class ChurnSystem(System):
    """Removes / adds agents and systems from inside the running timestep."""

    def __init__(self, model):
        super().__init__('churn', model, priority=1, frequency=2, start=1)

    def execute(self):
        m = self.model
        env = m.environment
        victim = env.get_random_agent()
        if victim is not None:
            env.remove_agent(victim.id)
            m.log.append(['removed', victim.id])
        m.spawn()
        if m.systems.timestep % 6 == 1 and m.systems['extra'] is None:
            m.systems.add_system(ExtraSystem(m, m.random.choice((-3, 0, 2, 4, 9))))
        elif m.systems.timestep % 6 == 5 and m.systems['extra'] is not None:
            m.systems.remove_system('extra')


class HookSystem(System):
    """Always present (so the system mix never changes); calls model.inner_hook from inside the timestep."""

    def __init__(self, model):
        super().__init__('hook', model, priority=4)

    def execute(self):
        if self.model.inner_hook is not None:
            self.model.inner_hook(self.model)


class EndSystem(System):
    def __init__(self, model):
        super().__init__('end', model, priority=-5)

    def execute(self):
        if self.model.systems.timestep + 1 >= self.model.steps:
            self.model.complete()


class LogCollector(Collector):
    def __init__(self, model):
        super().__init__('logc', model, priority=-2)
        self.records = model.log


def _agent_record(agent):
    pos = agent[PositionComponent]
    en = agent[Energy]
    return [None if pos is None else [repr(v) for v in pos.xyz()], None if en is None else en.value, agent.tag]


class TrajModel(Model):
    W, H, D = 7, 5, 3

    def __init__(self, seed=0, world='plain', n=10, mix='full', steps=12, inner_hook=None):
        super().__init__(seed=seed)
        self.log = [['config', repr(seed), world, n, mix, steps]]
        self.steps = steps
        self.inner_hook = inner_hook
        self.counter = 0
        W, H, D = self.W, self.H, self.D
        if world == 'plain':
            pass
        elif world == 'line':
            self.environment = LineWorld(self, W)
        elif world == 'linewrap':
            self.environment = LineWorld(self, W, wrap_env=True)
        elif world == 'grid':
            self.set_environment(GridWorld(self, W, H))
        elif world == 'gridwrap':
            self.set_environment(GridWorld(self, W, H, wrap_env=True))
        elif world == 'cube':
            self.environment = DiscreteWorld(self, W, H, D)
        elif world == 'cubewrap':
            self.environment = DiscreteWorld(self, W, H, D, wrap_env=True)
        elif world == 'space':
            self.environment = SpaceWorld(self, 7.5, 5.25, 0.0)
        elif world == 'spacewrap':
            self.environment = SpaceWorld(self, 7.5, 5.25, 3.125, wrap_env=True)
        else:
            raise ValueError(world)
        for _ in range(n):
            self.spawn()
        self.systems.add_system(HookSystem(self))
        if mix in ('full', 'shuffle', 'churn'):
            self.systems.add_system(MoveSystem(self))
        if mix in ('full', 'pick'):
            self.systems.add_system(PickSystem(self))
        if mix in ('full', 'churn'):
            self.systems.add_system(ChurnSystem(self))
        self.systems.add_system(EndSystem(self))
        self.systems.add_system(AgentCollector(self, _agent_record, includeTimstep=True, id='collector'))
        self.systems.add_system(LogCollector(self))

    def spawn(self):
        r = self.random
        env = self.environment
        i = self.counter
        self.counter += 1
        cls = Walker if i % 3 else Sitter
        tag = (None, Tags.HUNT_A, Tags.HUNT_B, 0)[r.randrange(4)]
        a = cls('a%d' % i, self, tag=tag)
        if i % 2 == 0:
            a.add_component(Energy(a, self, r.randrange(5)))
        if isinstance(env, DiscreteWorld):
            env.add_agent(a, r.randrange(env.width),
                          r.randrange(env.height) if env.height > 0 else 0,
                          r.randrange(env.depth) if env.depth > 0 else 0)
        elif isinstance(env, SpaceWorld):
            env.add_agent(a, r.uniform(0, env.width), r.uniform(0, env.height),
                          r.uniform(0, env.depth) if env.depth > 0 else 0)
        else:
            env.add_agent(a)


def state_digest(rng):
    return hashlib.sha256(repr(rng.getstate()).encode()).hexdigest()


def traj(m):
    return {'log': m.log, 'records': m.systems['collector'].records, 'state': state_digest(m.random)}


def dg(obj):
    return hashlib.sha256(json.dumps(obj, sort_keys=True, default=repr).encode()).hexdigest()


def dg_lr(t):
    return dg({'log': t['log'], 'records': t['records']})


def step_to_end(m, between=None):
    while m.is_running() and m.systems.timestep < m.steps:
        m.execute()
        if between is not None:
            between(m)
    return m


def run(seed=0, world='plain', n=10, mix='full', steps=12, between=None, inner=None):
    m = TrajModel(seed=seed, world=world, n=n, mix=mix, steps=steps, inner_hook=inner)
    step_to_end(m, between)
    return traj(m)


def all_configs():
    for world, mix, n in itertools.product(WORLDS, MIXES, (0, 1, 2, 11)):
        yield dict(world=world, mix=mix, n=n)


def small_configs():
    for world in WORLDS:
        yield dict(world=world, mix='full', n=9)


def first_diff(a, b):
    """Human readable first difference of two trajectories."""
    for k in ('log', 'records'):
        for i, (x, y) in enumerate(zip(a[k], b[k])):
            if x != y:
                return '%s[%d]: %r != %r' % (k, i, x, y)
        if len(a[k]) != len(b[k]):
            return 'len(%s): %d != %d' % (k, len(a[k]), len(b[k]))
    if a['state'] != b['state']:
        return 'final generator state differs'
    return 'no difference'


# --------------------------------------------------------------------------------------------------------------------
# Decoder based model (JSON file -> model)
# --------------------------------------------------------------------------------------------------------------------

class DecModel(Model, IDecodable):
    def __init__(self, seed):
        super().__init__(seed=seed)
        self.log = []

    @staticmethod
    def decode(params):
        return DecModel(params['seed'])


class DecAgent(Agent, IDecodable):
    @staticmethod
    def decode(params):
        return DecAgent('d%d' % params['agent_index'], params['model'])


class DecSystem(System, IDecodable):
    def execute(self):
        env = self.model.environment
        self.model.log.append([[a.id for a in env.shuffle()], env.get_random_agent().id])

    @staticmethod
    def decode(params):
        return DecSystem(params['id'], params['model'])


# --------------------------------------------------------------------------------------------------------------------
# Child process entry points
# --------------------------------------------------------------------------------------------------------------------

def score(model):
    return int(dg(traj(model))[:12], 16)


BATCH_PARAMS = {'seed': [0, 1, 7, 2 ** 70, -5, 'label'], 'world': ['plain', 'gridwrap', 'cube', 'spacewrap'],
                'n': 9, 'mix': 'full', 'steps': [8]}


def child_main(argv):
    mode = argv[0]
    if mode == 'traj':
        cfgs = json.loads(sys.stdin.read())
        if len(argv) > 1 and argv[1] == 'perturb':
            random.seed(os.urandom(8))
            np.random.seed(int.from_bytes(os.urandom(3), 'big'))
            for _ in range(random.randrange(50)):
                random.random()
        out = []
        for c in cfgs:
            out.append(dg(run(**c)))
        print(json.dumps(out))
    elif mode == 'batch':
        import multiprocessing
        procs, method = int(argv[1]), argv[2]
        multiprocessing.set_start_method(method, force=True)
        random.seed(os.urandom(8))
        res = batch_run(TrajModel, dict(BATCH_PARAMS), collectors=['collector', 'logc'], processes=procs,
                        max_timesteps=8, repetitions=2)
        out = {}
        for d in res:
            key = json.dumps(d['logc'][0])
            out.setdefault(key, []).append(dg({'log': d['logc'], 'records': d['collector']}))
        print(json.dumps(out))
    elif mode == 'grid':
        import multiprocessing
        procs, method = int(argv[1]), argv[2]
        multiprocessing.set_start_method(method, force=True)
        best, allres = grid_search(TrajModel, ParameterList(dict(BATCH_PARAMS)), score, processes=procs,
                                   max_timesteps=8, repetitions=2)
        print(json.dumps([[repr(r['seed']), r['world'], r['records']] for r in allres]))
    elif mode == 'unpickle':
        m = pickle.loads(sys.stdin.buffer.read())
        random.seed(12345)
        step_to_end(m)
        print(json.dumps(dg(traj(m))))
    else:
        raise SystemExit('unknown child mode')


def spawn_child(args, stdin=b'', hashseed=None):
    env = dict(os.environ)
    env['PYTHONPATH'] = HERE + os.pathsep + env.get('PYTHONPATH', '')
    if hashseed is not None:
        env['PYTHONHASHSEED'] = str(hashseed)
    else:
        env.pop('PYTHONHASHSEED', None)
    p = subprocess.run([sys.executable, os.path.abspath(__file__), '--child'] + list(args), input=stdin,
                       stdout=subprocess.PIPE, stderr=subprocess.PIPE, env=env, timeout=CHILD_TIMEOUT, cwd=HERE)
    if p.returncode != 0:
        raise RuntimeError('child %r failed (%d): %s' % (args, p.returncode, p.stderr.decode()[-2000:]))
    return json.loads(p.stdout.decode().strip().splitlines()[-1])


# --------------------------------------------------------------------------------------------------------------------
# Experiments.  Each returns None (fine) or a string describing a violation.
# --------------------------------------------------------------------------------------------------------------------

def exp_baseline():
    """Same seed twice -> identical; the seed is actually used (different seeds differ)."""
    for c in all_configs():
        for seed in (0, 1, 42):
            a, b = run(seed=seed, **c), run(seed=seed, **c)
            if a != b:
                return 'two plain runs of %r seed=%r differ: %s' % (c, seed, first_diff(a, b))
        if c['n'] >= 2 and dg(run(seed=1, **c)) == dg(run(seed=2, **c)):
            return 'seed is ignored for %r (seed 1 and 2 give the same trajectory)' % (c,)


def exp_global_reseed_between_steps():
    """random / numpy.random reseeded and consumed between steps and before construction."""
    for c in all_configs():
        ref = run(seed=5, **c)

        def between(m):
            random.seed(m.systems.timestep * 31 + 1)
            np.random.seed(m.systems.timestep + 3)
            random.random(), random.shuffle([1, 2, 3]), np.random.rand(4), np.random.shuffle(np.arange(5))

        random.seed(99)
        np.random.seed(99)
        got = run(seed=5, between=between, **c)
        if got != ref:
            return 'reseeding global generators changes %r: %s' % (c, first_diff(ref, got))
        random.seed(os.urandom(16))
        for _ in range(17):
            random.getrandbits(64)
        got = run(seed=5, **c)
        if got != ref:
            return 'consuming global random before the run changes %r: %s' % (c, first_diff(ref, got))


def exp_global_reseed_inside_step():
    """Global generators reseeded from inside a running timestep (between two systems)."""
    for c in small_configs():
        ref = run(seed=8, **c)

        def inner(m):
            random.seed(1)
            np.random.seed(1)
            random.setstate(random.Random(m.systems.timestep).getstate())

        got = run(seed=8, inner=inner, **c)
        if got != ref:
            return 'reseeding inside a timestep changes %r: %s' % (c, first_diff(ref, got))


def exp_globals_untouched():
    """The framework must not consume or reseed the global generators."""
    for c in all_configs():
        random.seed(2024)
        np.random.seed(2024)
        s0, n0 = random.getstate(), np.random.get_state()
        run(seed=3, **c)
        n1 = np.random.get_state()
        if random.getstate() != s0:
            return 'running %r changed the state of the global `random` generator' % (c,)
        if not (n0[0] == n1[0] and (n0[1] == n1[1]).all() and n0[2:] == n1[2:]):
            return 'running %r changed the state of numpy.random' % (c,)


def exp_globals_booby_trapped():
    """Module level random.* / numpy.random.* functions replaced by functions that raise."""
    names = ['random', 'shuffle', 'choice', 'choices', 'sample', 'randrange', 'randint', 'uniform', 'getrandbits',
             'seed']
    np_names = ['rand', 'random', 'shuffle', 'choice', 'randint', 'permutation', 'seed', 'random_sample']
    ref = {json.dumps(c): run(seed=4, **c) for c in small_configs()}
    saved = {n: getattr(random, n) for n in names}
    np_saved = {n: getattr(np.random, n) for n in np_names}

    def boom(*a, **k):
        raise AssertionError('global random function called by the framework')

    try:
        for n in names:
            setattr(random, n, boom)
        for n in np_names:
            setattr(np.random, n, boom)
        for c in small_configs():
            try:
                got = run(seed=4, **c)
            except AssertionError as e:
                return '%s while running %r:\n%s' % (e, c, traceback.format_exc())
            if got != ref[json.dumps(c)]:
                return 'trajectory of %r changes when global random functions are replaced' % (c,)
    finally:
        for n, f in saved.items():
            setattr(random, n, f)
        for n, f in np_saved.items():
            setattr(np.random, n, f)


def exp_interleaving():
    """Models stepped in lock step / round robin / nested construction with other models."""
    cfgs = list(small_configs())
    refs = [run(seed=11, **c) for c in cfgs]
    # 1. all worlds with the SAME seed stepped round-robin, plus decoys with other seeds and the same seed
    models = [TrajModel(seed=11, **c) for c in cfgs]
    decoys = [TrajModel(seed=s, **c) for c in cfgs for s in (11, 12)]
    alive = True
    while alive:
        alive = False
        for m in itertools.chain(decoys, reversed(models)):
            if m.is_running() and m.systems.timestep < m.steps:
                m.execute()
                alive = True
    for c, m, ref in zip(cfgs, models, refs):
        if traj(m) != ref:
            return 'round-robin stepping with other models changes %r: %s' % (c, first_diff(ref, traj(m)))
    # 2. other models built and fully run between every step
    for c, ref in zip(cfgs, refs):
        got = run(seed=11, between=lambda m: run(seed=11, **c) and run(seed=m.systems.timestep, world='grid'), **c)
        if got != ref:
            return 'building+running other models between steps changes %r: %s' % (c, first_diff(ref, got))
    # 3. a nested model built and stepped from inside a system of the outer model
    for c, ref in zip(cfgs, refs):
        got = run(seed=11, inner=lambda m: run(seed=11, steps=3, **c), **c)
        if got != ref:
            return 'a nested model stepped inside a timestep changes %r: %s' % (c, first_diff(ref, got))
    # 4. generators are not shared between models with the same seed
    a, b = TrajModel(seed=1), TrajModel(seed=1)
    if a.random is b.random:
        return 'two models share one generator object'
    if isinstance(a.random, type(random)) or a.random is getattr(random, '_inst', None):
        return 'model.random is the global generator'


def exp_threads():
    """Several models stepped concurrently in threads."""
    cfgs = list(small_configs())
    refs = [run(seed=21, **c) for c in cfgs]
    out = [None] * len(cfgs)
    barrier = threading.Barrier(len(cfgs))

    def work(i):
        m = TrajModel(seed=21, **cfgs[i])
        barrier.wait()
        step_to_end(m, between=lambda m_: random.random())
        out[i] = traj(m)

    ts = [threading.Thread(target=work, args=(i,)) for i in range(len(cfgs))]
    [t.start() for t in ts]
    [t.join(60) for t in ts]
    for c, ref, got in zip(cfgs, refs, out):
        if got != ref:
            return 'stepping in concurrent threads changes %r' % (c,)


def exp_seed_kinds():
    """Falsy / unusual seeds: the generator is seeded with exactly that seed, and trajectories repeat."""
    class S(str):
        pass

    class I(int):
        pass

    seeds = [0, -0, False, True, 0.0, -0.0, '', 'abc', S('abc'), S(''), b'', b'\x00', bytearray(b'xy'), 2 ** 200,
             -2 ** 200, -1, I(0), I(9), 1.5, float('inf'), np.float64(0.0), np.float64(2.5), sys.maxsize, 10 ** 30]
    for seed in seeds:
        try:
            expect = random.Random(seed).getstate()
        except TypeError:
            continue
        if Model(seed=seed).random.getstate() != expect or Model(seed).random.getstate() != expect:
            return 'Model(seed=%r).random is not seeded like random.Random(%r)' % (seed, seed)
        for c in (dict(world='plain', n=6), dict(world='gridwrap', n=6)):
            ref = run(seed=seed, **c)
            random.seed(os.urandom(8))
            got = run(seed=copy.deepcopy(seed), between=lambda m: random.seed(3), **c)
            if got != ref:
                return 'seed %r does not reproduce %r: %s' % (seed, c, first_diff(ref, got))
    if dg(run(seed=0, n=8)) == dg(run(seed=1, n=8)) or dg(run(seed='', n=8)) == dg(run(seed='a', n=8)):
        return 'falsy seed treated like another seed'
    # a mutable seed object reused across models must not couple them
    ba = bytearray(b'seed')
    m1 = Model(seed=ba)
    ba[0] = 0
    if m1.random.getstate() != random.Random(bytearray(b'seed')).getstate():
        return 'mutating a bytearray seed after construction changes the model generator'


def exp_oracle():
    """shuffle / get_random_agent draw from model.random exactly as documented (replayed with a twin generator)."""
    for world in WORLDS:
        m = TrajModel(seed=77, world=world, n=9, mix='pick')
        twin = random.Random()
        twin.setstate(m.random.getstate())
        env = m.environment
        for _ in range(5):
            ids = [a.id for a in env.get_agents()]
            twin.shuffle(ids)
            if [a.id for a in env.shuffle()] != ids:
                return 'Environment.shuffle() in world %r is not model.random.shuffle(get_agents())' % world
            ids = [a.id for a in env.get_agents(Energy, tag=0)]
            want = twin.choice(ids) if ids else None
            got = env.get_random_agent(Energy, tag=0)
            if (got.id if got is not None else None) != want:
                return 'get_random_agent() in world %r is not model.random.choice(get_agents(...))' % world
        if twin.getstate() != m.random.getstate():
            return 'extra draws from model.random in world %r' % world


def exp_foreign_and_replaced_envs():
    """Environments that are not model.environment, replaced environments, set_model()."""
    m1, m2 = Model(seed=1), Model(seed=2)
    aux = GridWorld(m1, 4, 4, id='AUX')  # belongs to m1 but is not m1.environment
    for i in range(6):
        aux.add_agent(Agent('x%d' % i, m1), i % 4, i // 4)
    s1, s2 = m1.random.getstate(), m2.random.getstate()
    random.seed(5)
    g = random.getstate()
    order = [a.id for a in aux.shuffle()]
    pick = aux.get_random_agent().id
    twin = random.Random(1)
    ids = ['x%d' % i for i in range(6)]
    twin.shuffle(ids)
    if order != ids or pick != twin.choice(['x%d' % i for i in range(6)]):
        return 'an auxiliary environment of model m1 does not draw from m1.random'
    if m2.random.getstate() != s2 or random.getstate() != g:
        return 'an auxiliary environment drew from another model / the global generator'
    if m1.random.getstate() == s1:
        return 'an auxiliary environment did not advance m1.random'
    # handing the environment over to m2 via the public set_model()/set_environment()
    aux.set_model(m2)
    m2.set_environment(aux)
    s1 = m1.random.getstate()
    twin = random.Random(2)
    ids = ['x%d' % i for i in range(6)]
    twin.shuffle(ids)
    if [a.id for a in m2.environment.shuffle()] != ids:
        return 'after set_model(m2) the environment does not draw from m2.random'
    if m1.random.getstate() != s1:
        return 'after set_model(m2) the environment still consumes m1.random'
    # replacing the environment in the middle of a run: same seed, same trajectory
    def replace(m):
        if m.systems.timestep == 4:
            old = m.environment
            new = GridWorld(m, 9, 9, wrap_env=True)
            for a in old.get_agents():
                p = a[PositionComponent].xyz() if PositionComponent in a else (0, 0, 0)
                old.remove_agent(a.id)
                new.add_agent(a, int(p[0]), int(p[1]))
            m.environment = new
    for world in ('plain', 'grid', 'space'):
        a = run(seed=6, world=world, between=replace)
        random.seed(7)
        b = run(seed=6, world=world, between=replace)
        if a != b:
            return 'replacing the environment mid-run breaks reproducibility in %r: %s' % (world, first_diff(a, b))


def exp_completed_and_errors():
    """Completed models, exceptions raised half way through a timestep, framework error paths."""
    m = TrajModel(seed=3, world='grid', n=5, steps=4)
    step_to_end(m)
    st, ts, ln = m.random.getstate(), m.systems.timestep, len(m.log)
    m.execute(3)
    m.systems.execute_systems()
    if (m.random.getstate(), m.systems.timestep, len(m.log)) != (st, ts, ln):
        return 'executing a completed model still advances it'
    twin = random.Random()
    twin.setstate(st)
    ids = [a.id for a in m.environment.get_agents()]
    twin.shuffle(ids)
    if [a.id for a in m.environment.shuffle()] != ids:
        return 'shuffle on a completed model does not use model.random'

    class Boom(Exception):
        pass

    def inner(mm):
        mm.environment.shuffle()  # consume, then fail half way through the timestep
        if mm.systems.timestep % 3 == 1:
            raise Boom()

    def go():
        mm = TrajModel(seed=13, world='cubewrap', n=7, steps=10, inner_hook=inner)
        guard = 0
        while mm.is_running() and mm.systems.timestep < mm.steps and guard < 100:
            guard += 1
            try:
                mm.execute()
            except Boom:
                mm.systems.timestep += 1  # the failed step never finished; move on
            # error paths of the framework that half complete
            try:
                mm.environment.add_agent(mm.environment.get_random_agent(), 0, 0, 0)
            except Exception:
                pass
            try:
                mm.environment.remove_agent('nope')
            except Exception:
                pass
            try:
                mm.environment.add_agent(Agent('oob%d' % guard, mm), 99, 99, 99)
            except Exception:
                pass
        return traj(mm)

    a = go()
    random.seed(1)
    b = go()
    if a != b:
        return 'runs with exceptions inside timesteps are not reproducible: %s' % first_diff(a, b)


def exp_hashseed():
    """Fresh interpreters with different PYTHONHASHSEED values (and perturbed global generators)."""
    cfgs = [dict(seed=s, **c) for c in all_configs() if c['n'] in (2, 11) for s in (0, 31)]
    cfgs += [dict(seed='label', world='gridwrap'), dict(seed=2 ** 90, world='spacewrap')]
    ref = [dg(run(**c)) for c in cfgs]
    payload = json.dumps(cfgs).encode()
    for hs in ('0', '1', '4242', 'random', None):
        got = spawn_child(['traj', 'perturb'], payload, hashseed=hs)
        for c, r, g in zip(cfgs, ref, got):
            if r != g:
                return 'PYTHONHASHSEED=%s fresh interpreter gives another trajectory for %r' % (hs, c)


def _expected_batch():
    exp = {}
    for kw in ParameterList(dict(BATCH_PARAMS)).build():
        m = TrajModel(**kw)
        step_to_end(m)
        exp[json.dumps(m.log[0])] = dg_lr(traj(m))
    return exp


def exp_batch_workers():
    """batch_run in worker processes (processes 1, 2, 3; fork and spawn) against in-process runs."""
    exp = _expected_batch()
    import multiprocessing
    methods = [m for m in ('fork', 'spawn', 'forkserver') if m in multiprocessing.get_all_start_methods()]
    for procs, method in [(1, methods[0])] + [(p, me) for me in methods for p in (2, 3)]:
        got = spawn_child(['batch', str(procs), method])
        if set(got) != set(exp):
            return 'batch_run(processes=%d, %s) returned a different set of runs' % (procs, method)
        for k in exp:
            if got[k] != [exp[k]] * 2:
                return ('batch_run(processes=%d, start method %s): run %s differs from the in-process trajectory '
                        '(or between repetitions)' % (procs, method, k))


def exp_grid_search_workers():
    """grid_search scores in worker processes against in-process scores."""
    exp = {}
    for kw in ParameterList(dict(BATCH_PARAMS)).build():
        m = TrajModel(**kw)
        step_to_end(m)
        exp[(repr(kw['seed']), kw['world'])] = score(m)
    for procs, method in ((1, 'fork'), (2, 'fork'), (3, 'spawn')):
        got = spawn_child(['grid', str(procs), method])
        for s, w, recs in got:
            if recs != [exp[(s, w)]] * 2:
                return 'grid_search(processes=%d, %s): seed %s world %s scores %r, expected %r twice' % (
                    procs, method, s, w, recs, exp[(s, w)])


def exp_pickle_copy_fork():
    """A half-run model that is deep-copied / pickled into another interpreter / forked continues identically."""
    for c in small_configs():
        ref = run(seed=17, **c)
        m = TrajModel(seed=17, **c)
        for _ in range(5):
            m.execute()
        try:
            clone = copy.deepcopy(m)
            blob = pickle.dumps(m)
        except Exception as e:  # not a documented feature: do not count
            print('    (note: models of %r cannot be copied/pickled: %r - skipped)' % (c, e))
            continue
        random.seed(4)
        if hasattr(os, 'fork'):
            rfd, wfd = os.pipe()
            pid = os.fork()
            if pid == 0:
                try:
                    os.close(rfd)
                    random.seed(os.getpid())
                    step_to_end(m)
                    os.write(wfd, dg(traj(m)).encode())
                finally:
                    os._exit(0)
            os.close(wfd)
            data = b''
            while True:
                chunk = os.read(rfd, 4096)
                if not chunk:
                    break
                data += chunk
            os.close(rfd)
            os.waitpid(pid, 0)
            if data.decode() != dg(ref):
                return 'a forked child continuing %r produces another trajectory' % (c,)
        step_to_end(clone)
        if traj(clone) != ref:
            return 'a deep copy continuing %r diverges: %s' % (c, first_diff(ref, traj(clone)))
        step_to_end(m)
        if traj(m) != ref:
            return 'the original diverges after being copied %r: %s' % (c, first_diff(ref, traj(m)))
        if spawn_child(['unpickle'], blob, hashseed='777') != dg(ref):
            return 'a pickled model continued in a fresh interpreter diverges for %r' % (c,)


def exp_decoder():
    """JsonDecoder: the same file (LF and CRLF) decoded repeatedly with the same seed."""
    spec = {'model': {'name': 'DecModel', 'params': {'seed': 0}},
            'systems': [{'name': 'DecSystem', 'params': {'id': 's'}}],
            'agents': [{'name': 'DecAgent', 'number': 8, 'params': {}}]}
    logs = []
    with tempfile.TemporaryDirectory() as d:
        for i, nl in enumerate(('\n', '\r\n', '\n')):
            path = os.path.join(d, 'm%d.json' % i)
            with open(path, 'w', newline='') as f:
                f.write(json.dumps(spec, indent=2).replace('\n', nl))
            random.seed(i)
            m = JsonDecoder().decode(path)
            other = JsonDecoder().decode(path)
            for _ in range(6):
                m.execute()
                other.execute()
            logs.append(m.log)
            if other.log != m.log:
                return 'two models decoded from the same file diverge'
    twin = random.Random(0)
    ids = ['d%d' % i for i in range(8)]
    want = []
    for _ in range(6):
        s = list(ids)
        twin.shuffle(s)
        want.append([s, twin.choice(ids)])
    if not (logs[0] == logs[1] == logs[2] == want):
        return 'decoded model with seed 0 does not follow random.Random(0) / differs between LF and CRLF files'


def exp_odd_population():
    """Odd but legal populations: falsy agents, str-subclass / int / tuple / float / bool ids, shared classes."""
    class SId(str):
        def __hash__(self):
            return 7  # all collide

        def __eq__(self, other):
            return str.__eq__(self, other)

    def build(seed, world):
        m = Model(seed=seed)
        if world == 'grid':
            m.environment = GridWorld(m, 5, 5)
        ids = ['', 0, -0.0, 1, True, (1, 'a'), frozenset({'q', 'r'}), SId('s1'), SId('s2'), 'a', b'a', None, 2 ** 70, 2.5]
        seen = []
        for i in ids:
            if any(i == s for s in seen):  # 1 == True, 0 == -0.0: duplicates are (correctly) refused
                continue
            seen.append(i)
            a = Agent(i, m, tag=(None, 0, 1, 2)[len(seen) % 4])
            if len(seen) % 2:
                a.add_component(Energy(a, m))
            if world == 'grid':
                m.environment.add_agent(a, m.random.randrange(5), m.random.randrange(5))
            else:
                m.environment.add_agent(a)
        out = []
        for t in range(8):
            env = m.environment
            out.append([repr(a.id) for a in env.shuffle()])
            out.append([repr(a.id) for a in env.shuffle(Energy, tag=0)])
            p = env.get_random_agent(tag=0)
            out.append(repr(None if p is None else p.id))
            p = env.get_random_agent(Energy)
            out.append(repr(p.id))
            if t == 3:
                env.remove_agent(p.id)
        out.append(state_digest(m.random))
        return out

    for world in ('plain', 'grid'):
        a = build(5, world)
        random.seed(8)
        Model(seed=5).environment.shuffle()
        b = build(5, world)
        if a != b:
            return 'odd agent ids break reproducibility in world %r' % world


def exp_model_subclasses():
    """Model subclasses: draws in __init__ before/after population, __slots__ subclass, custom logger, many classes."""
    import logging

    class Slotted(Model):
        __slots__ = ['extra']

        def __init__(self, seed):
            super().__init__(seed, logger=logging.getLogger('hunt.%s' % seed))
            self.extra = [self.random.random() for _ in range(3)]
            for i in range(5):
                self.environment.add_agent(Agent(str(i), self))
            self.extra.append([a.id for a in self.environment.shuffle()])

    a = Slotted(9)
    random.seed(1)
    others = [Slotted(s) for s in (9, 10)]
    [o.environment.shuffle() for o in others]
    b = Slotted(9)
    if a.extra != b.extra:
        return 'draws made in a Model subclass __init__ are not reproducible'
    seq_a = [a.environment.get_random_agent().id for _ in range(20)]
    seq_b = []
    for _ in range(20):
        others[0].environment.get_random_agent()
        seq_b.append(b.environment.get_random_agent().id)
    if seq_a != seq_b:
        return 'interleaved get_random_agent calls on same-seed models influence each other'


def notes():
    """Observations that are outside the stated scope (misuse / unspecified); printed, never counted."""
    out = []
    # (a) an environment constructed for model m1 but installed in m2 WITHOUT env.set_model(m2)
    m1, m2 = Model(seed=1), Model(seed=2)
    env = Environment(m1)
    for i in range(5):
        env.add_agent(Agent(str(i), m1))
    m2.set_environment(env)
    s2 = m2.random.getstate()
    m2.environment.shuffle()
    if m2.random.getstate() == s2:
        out.append('m2.set_environment(env) does not re-home an environment that was constructed with model m1: '
                   'env.shuffle() keeps drawing from env.model (m1).random until env.set_model(m2) is called. '
                   'The environment was explicitly told it belongs to m1, so this is user misconfiguration.')
    # (b) NaN seeds: CPython hashes NaN by object identity, so random.Random(nan) itself is not reproducible
    a, b = Model(seed=float('nan')).random.random(), Model(seed=float('nan')).random.random()
    if a != b:
        out.append('Model(seed=float("nan")) is not reproducible - this is random.Random(nan) itself (hash(nan) is '
                   'identity based in CPython >= 3.10); the seed is documented as int, not counted.')
    out.append('batch_run(processes > 1) collects with Pool.imap_unordered: the ORDER of the result list depends on '
               'scheduling, every individual trajectory is identical (checked above).  Ordering is not part of this '
               'property, not counted.')
    return out


EXPERIMENTS = [
    ('baseline: same seed twice / seed is used', exp_baseline),
    ('global random + numpy.random reseeded/consumed between steps', exp_global_reseed_between_steps),
    ('global generators reseeded from inside a timestep', exp_global_reseed_inside_step),
    ('global generator state untouched by the framework', exp_globals_untouched),
    ('module-level random / numpy.random functions booby-trapped', exp_globals_booby_trapped),
    ('interleaving with other models (round robin, between steps, nested)', exp_interleaving),
    ('models stepped in concurrent threads', exp_threads),
    ('falsy / unusual seeds (0, -0.0, "", b"", bool, str subclass, huge ints, numpy floats)', exp_seed_kinds),
    ('shuffle / get_random_agent replayed with a twin generator, all worlds', exp_oracle),
    ('auxiliary, handed-over and replaced environments', exp_foreign_and_replaced_envs),
    ('completed models, exceptions half way through a timestep, framework error paths', exp_completed_and_errors),
    ('odd populations (falsy agents, colliding / mixed-type ids)', exp_odd_population),
    ('Model subclasses, draws in __init__, interleaved picks', exp_model_subclasses),
    ('JsonDecoder (LF / CRLF), decoded twice', exp_decoder),
    ('fresh interpreters with PYTHONHASHSEED 0/1/4242/random/unset', exp_hashseed),
    ('deepcopy / pickle to fresh interpreter / os.fork of a half-run model', exp_pickle_copy_fork),
    ('batch_run worker processes (1,2,3; fork/spawn/forkserver; repetitions)', exp_batch_workers),
    ('grid_search worker processes', exp_grid_search_workers),
]


def main():
    print('ECAgent under test:', ECAgent.__file__)
    if not os.path.abspath(ECAgent.__file__).startswith(HERE + os.sep):
        print('WARNING: ECAgent was not imported from', HERE)
    violations = 0
    for name, fn in EXPERIMENTS:
        try:
            res = fn()
        except subprocess.TimeoutExpired as e:
            res = None
            print('[INCONCLUSIVE] %s: child timed out (%s)' % (name, e))
            continue
        except Exception:
            res = None
            print('[ERROR in experiment, not counted] %s\n%s' % (name, traceback.format_exc()))
            continue
        if res is None:
            print('[OK] %s' % name)
        else:
            violations += 1
            print('[VIOLATION] %s\n    %s' % (name, res))
    try:
        for n in notes():
            print('[NOTE, out of scope, not counted] %s' % n)
    except Exception:
        print('[ERROR in notes, not counted]\n%s' % traceback.format_exc())
    print('violations found: %d' % violations)
    return 1 if violations else 0


if __name__ == '__main__':
    if len(sys.argv) > 1 and sys.argv[1] == '--child':
        child_main(sys.argv[2:])
        sys.exit(0)
    sys.exit(main())
