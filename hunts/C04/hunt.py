"""Bug hunt for property C04:

  "Environment holds exactly the live agents; failed operations leave no trace"

Run with:  cd /tmp/wt-C04-h && PYTHONPATH=/tmp/wt-C04-h /venv/bin/python hunt.py

Every experiment prints OK, VIOLATION (genuine, inside the stated scope, counted) or
NOTE (observed oddity that is outside the stated scope / merely unspecified, NOT counted).
Exit status is 1 if at least one VIOLATION was found, else 0.
Only the public API is used (env.agents and model.systems.component_pools are documented attributes).
"""
import copy
import pickle
import random
import sys
import traceback

from ECAgent.Core import (Agent, Component, Environment, Model, System,
                          AgentNotFoundError, DuplicateAgentError)
from ECAgent.Environments import (SpaceWorld, DiscreteWorld, GridWorld, LineWorld, PositionComponent)

VIOLATIONS = []
NOTES = []


def experiment(func):
    """Runs func; func returns a list of (kind, text) where kind in {'VIOLATION', 'NOTE'} (empty list == OK)."""
    name = func.__name__
    try:
        out = func() or []
    except Exception:  # an experiment blowing up is itself something to look at
        out = [('VIOLATION', 'experiment crashed:\n' + traceback.format_exc())]
    if not out:
        print(f'[OK]        {name}')
    for kind, text in out:
        print(f'[{kind}] {name}: {text}')
        (VIOLATIONS if kind == 'VIOLATION' else NOTES).append((name, text))
    return func


# --------------------------------------------------------------------------------------------------------------
# helpers
# --------------------------------------------------------------------------------------------------------------
class C(Component):
    pass


class D(Component):
    pass


class FalsyC(Component):  # a component that is falsy
    def __len__(self):
        return 0


class S(str):  # plain str subclass
    pass


class CI(str):  # str subclass with its own (case-insensitive, symmetric, transitive) equality among CI objects only
    def __eq__(self, other):
        return isinstance(other, CI) and self.lower() == other.lower()

    def __ne__(self, other):
        return not self.__eq__(other)

    def __hash__(self):
        return hash(('CI', self.lower()))


def pools(model):
    return {k: [id(c) for c in v] for k, v in model.systems.component_pools.items()}


def state(env, model, pool):
    return ([(repr(k), id(v)) for k, v in env.agents.items()],
            len(env), [id(a) for a in env], [id(a) for a in env.get_agents()],
            pools(model),
            [(id(a), a.id, a.tag, id(a.model),
              [(k, id(c), getattr(c, 'x', None), getattr(c, 'y', None), getattr(c, 'z', None))
               for k, c in a.components.items()]) for a in pool])


def check_agree(env, ref):
    assert len(env) == len(ref), ('len', len(env), len(ref))
    it = list(env)
    assert len(it) == len(ref) and all(x is y for x, y in zip(it, ref)), 'iteration != joining order'
    ls = env.get_agents()
    assert len(ls) == len(ref) and all(x is y for x, y in zip(ls, ref)), 'listing != joining order'
    assert list(env.agents.values()) == it
    for a in ref:
        assert env.get_agent(a.id) is a and env.get_agent(a.id, True) is a, 'lookup'
    assert sorted(map(id, env.shuffle())) == sorted(map(id, ref)), 'shuffle'


def make_envs():
    out = []
    m = Model(); out.append(('plain', m.environment, None))
    m = Model(); m.environment = SpaceWorld(m, 5.5, 4.0, 3.25); out.append(('space', m.environment, (5.5, 4.0, 3.25, 0)))
    m = Model(); m.environment = SpaceWorld(m, 5, 4, 3, wrap_env=True); out.append(('spacewrap', m.environment, (5, 4, 3, 0)))
    m = Model(); m.environment = SpaceWorld(m, 5, 4); out.append(('space2d', m.environment, (5, 4, 0, 0)))
    m = Model(); m.environment = GridWorld(m, 4, 3); out.append(('grid', m.environment, (4, 3, 0, 1)))
    m = Model(); m.environment = GridWorld(m, 4, 3, wrap_env=True); out.append(('gridwrap', m.environment, (4, 3, 0, 1)))
    m = Model(); m.environment = LineWorld(m, 4); out.append(('line', m.environment, (4, 0, 0, 1)))
    m = Model(); m.environment = DiscreteWorld(m, 4, 3, 2); out.append(('cube', m.environment, (4, 3, 2, 1)))
    m = Model(); m.environment = GridWorld(m, 1, 1); out.append(('grid1x1', m.environment, (1, 1, 0, 1)))
    return out


IDS = ['a', 'b', '', 0, 0.0, False, 1, True, 1.0, S('a'), S(''), CI('Q'), CI('q'), CI('R'), (), None, 'a ', -0.0,
       2 ** 70, float(2 ** 70), b'a', frozenset(), 'ENVIRONMENT']


def oob_positions(dims):
    import numpy as np
    w, h, d, off = dims
    res = []
    for axis, ext in enumerate((w, h, d)):
        if ext <= 0:
            continue
        hi = ext - off
        just_above = hi + 0.001 if off else hi + 1e-9
        for v in (-1, -0.5, -1e-300, np.int64(-1), np.float64(-0.25), -2 ** 80, float('-inf'),
                  hi + 1, just_above, np.float64(hi + 1), np.int64(hi + 1), 2 ** 80, float('inf')):
            p = [0, 0, 0]
            p[axis] = v
            res.append(tuple(p))
    return res


def inb_position(dims, rnd):
    w, h, d, off = dims
    p = []
    for ext in (w, h, d):
        if ext <= 0:
            p.append(0)
        else:
            hi = ext - off
            p.append(rnd.choice([0, hi, -0.0, 0.0, False, True if hi >= 1 else 0, hi / 2 if not off else hi]))
    return tuple(p)


# --------------------------------------------------------------------------------------------------------------
# 1. model-based random histories with every error path injected at every reachable state
# --------------------------------------------------------------------------------------------------------------
@experiment
def random_histories_all_worlds():
    problems = []
    for seed in range(25):
        rnd = random.Random(seed)
        for name, env, dims in make_envs():
            m = env.model
            if seed % 3 == 1:
                m.complete()  # completed models must behave the same
            pool = []
            for i in IDS:
                for _ in range(2):
                    a = Agent(i, m, tag=rnd.choice([None, 0, 1]))
                    if rnd.random() < .5: a.add_component(C(a, m))
                    if rnd.random() < .3: a.add_component(D(a, m))
                    if rnd.random() < .3: a.add_component(FalsyC(a, m))
                    pool.append(a)
            ref = []
            try:
                for step in range(120):
                    op = rnd.choice(['add', 'add', 'remove', 'lookup', 'oob', 'unknown', 'dupadd'])
                    before = state(env, m, pool)
                    if op in ('add', 'dupadd'):
                        a = rnd.choice(pool) if op == 'add' or not ref else Agent(rnd.choice(ref).id, m)
                        taken = any(r.id == a.id for r in ref)
                        args = inb_position(dims, rnd) if dims else ()
                        try:
                            env.add_agent(a, *args)
                            assert not taken, ('add succeeded although id taken', a.id)
                            ref.append(a)
                            if dims:
                                assert a[PositionComponent].xyz() == args
                        except DuplicateAgentError as e:
                            assert taken, ('DuplicateAgentError although id free', a.id)
                            assert e.a_id is a.id and e.environment is env
                            assert state(env, m, pool) == before, 'trace after duplicate add'
                    elif op == 'remove' and ref:
                        a = rnd.choice(ref)
                        env.remove_agent(a.id)
                        ref.remove(a)
                        assert PositionComponent not in a.components
                    elif op in ('unknown', 'lookup'):
                        i = rnd.choice(IDS + ['zz', 99])
                        if any(r.id == i for r in ref):
                            assert env.get_agent(i, True).id == i
                            continue
                        assert env.get_agent(i) is None
                        for f in (lambda: env.get_agent(i, True), lambda: env.remove_agent(i)):
                            try:
                                f()
                                assert False, 'no error for unknown id'
                            except AgentNotFoundError as e:
                                assert e.environment is env and e.a_id is i
                        assert state(env, m, pool) == before, 'trace after unknown id'
                    elif op == 'oob' and dims:
                        for pos in oob_positions(dims):
                            a = rnd.choice(pool)
                            try:
                                env.add_agent(a, *pos)
                                assert False, ('out-of-bounds placement accepted', pos)
                            except AssertionError:
                                raise
                            except Exception as e:
                                assert type(e) is Exception, (type(e), e, pos)
                            assert state(env, m, pool) == before, ('trace after out-of-bounds add', pos)
                    check_agree(env, ref)
                    exp = {}
                    for a in ref:
                        for k, c in a.components.items():
                            if k is not PositionComponent:
                                exp.setdefault(k, []).append(id(c))
                    assert pools(m) == exp, 'component pools != components of resident agents'
            except AssertionError as e:
                problems.append(('VIOLATION', f'seed={seed} world={name}: {e}'))
    return problems[:5]


# --------------------------------------------------------------------------------------------------------------
# 2. environments that are not (or no longer) model.environment
# --------------------------------------------------------------------------------------------------------------
@experiment
def duplicate_error_in_world_that_is_not_model_environment():
    m = Model()
    g = GridWorld(m, 3, 3, id='GRID')  # a second world of the model, never installed as model.environment
    a = Agent('a', m)
    g.add_agent(a, 1, 1)
    try:
        g.add_agent(Agent('a', m), 1, 1)
        return [('VIOLATION', 'duplicate add succeeded')]
    except DuplicateAgentError as e:
        if e.environment is not g or '"GRID"' not in e.message:
            return [('VIOLATION',
                     "m=Model(); g=GridWorld(m,3,3,id='GRID'); g.add_agent(Agent('a',m),1,1); "
                     "g.add_agent(Agent('a',m),1,1) -> DuplicateAgentError.environment is "
                     f"{type(e.environment).__name__} id={e.environment.id!r} (m.environment), not g; message={e.message!r}. "
                     "Expected .environment is g and message naming \"GRID\" (the environment the agent exists in).")]


@experiment
def duplicate_error_after_environment_was_replaced():
    m = Model()
    old = m.environment
    old.add_agent(Agent('a', m))
    m.set_environment(SpaceWorld(m, 5, 5, id='NEW'))
    try:
        old.add_agent(Agent('a', m))
        return [('VIOLATION', 'duplicate add succeeded')]
    except DuplicateAgentError as e:
        if e.environment is not old:
            return [('VIOLATION',
                     "m=Model(); old=m.environment; old.add_agent(Agent('a',m)); m.set_environment(SpaceWorld(m,5,5,id='NEW')); "
                     f"old.add_agent(Agent('a',m)) -> error blames environment {e.environment.id!r} "
                     f"(a world that has {len(e.environment)} agents and never held 'a'); message={e.message!r}")]


@experiment
def duplicate_error_in_environment_without_model():
    env = Environment(None)  # used like this in the package's own test-suite (tests/test_ECAgent.py test__len__)
    env.add_agent(Agent('a1', None))
    before = list(env.agents.items())
    try:
        env.add_agent(Agent('a1', None))
        return [('VIOLATION', 'duplicate add succeeded')]
    except DuplicateAgentError:
        return []
    except Exception as e:
        out = [('VIOLATION',
                "env=Environment(None); env.add_agent(Agent('a1',None)); env.add_agent(Agent('a1',None)) -> "
                f"{type(e).__name__}: {e}  (expected DuplicateAgentError)")]
        if list(env.agents.items()) != before:
            out.append(('VIOLATION', 'and the environment changed'))
        return out


@experiment
def duplicate_error_when_model_environment_is_unset():
    m = Model()
    env = m.environment
    m.environment = None  # e.g. a model that is being torn down / rebuilt
    env.add_agent(Agent('a', m))
    try:
        env.add_agent(Agent('a', m))
        return [('VIOLATION', 'duplicate add succeeded')]
    except DuplicateAgentError:
        return []
    except Exception as e:
        return [('VIOLATION',
                 "m=Model(); env=m.environment; m.environment=None; env.add_agent(Agent('a',m)) twice -> "
                 f"{type(e).__name__}: {e}  (expected DuplicateAgentError)")]


@experiment
def detached_worlds_everything_else():
    """All other operations on a world that is not model.environment behave (only the duplicate path is broken)."""
    out = []
    for mk in (lambda m: Environment(m, id='X'), lambda m: SpaceWorld(m, 3, 3, 3, id='X'), lambda m: GridWorld(m, 3, 3, id='X')):
        m = Model()
        env = mk(m)
        a = Agent('a', m); a.add_component(C(a, m))
        args = (1, 1) if isinstance(env, SpaceWorld) else ()
        env.add_agent(a, *args)
        before = state(env, m, [a])
        for f in (lambda: env.remove_agent('zz'), lambda: env.get_agent('zz', True)):
            try:
                f()
                out.append(('VIOLATION', 'no error for unknown id'))
            except AgentNotFoundError as e:
                if e.environment is not env or '"X"' not in e.message:
                    out.append(('VIOLATION', f'AgentNotFoundError names wrong env: {e.message}'))
        if isinstance(env, SpaceWorld):
            try:
                env.add_agent(Agent('b', m), 9, 0, 0)
                out.append(('VIOLATION', 'oob accepted'))
            except Exception as e:
                assert type(e) is Exception
        if state(env, m, [a]) != before:
            out.append(('VIOLATION', 'trace left in detached world'))
        env.remove_agent('a')
        if len(env) or m.systems.component_pools:
            out.append(('VIOLATION', 'remove left trace'))
    return out


# --------------------------------------------------------------------------------------------------------------
# 3. boundary values of the out-of-bounds check
# --------------------------------------------------------------------------------------------------------------
@experiment
def nan_placement():
    out = []
    for label, mk in (('SpaceWorld(m,5,5,5)', lambda m: SpaceWorld(m, 5, 5, 5)), ('GridWorld(m,5,5)', lambda m: GridWorld(m, 5, 5))):
        m = Model(); w = mk(m); m.environment = w
        for axis in range(2):
            pos = [0, 0, 0]; pos[axis] = float('nan')
            a = Agent(f'n{axis}', m)
            try:
                w.add_agent(a, *pos)
            except Exception:
                continue
            moved = None
            try:
                w.move_to(a, *pos)
            except IndexError:
                moved = 'move_to rejects the same coordinates with IndexError (out of range)'
            out.append(('NOTE', f"{label}.add_agent(a, {pos}) is accepted: the agent becomes resident at NaN; {moved}. "
                                "NaN is not one of the enumerated 'each axis and side' cases, so NOT counted."))
            break
    return out


@experiment
def continuous_upper_boundary_vs_docstring():
    m = Model(); w = SpaceWorld(m, 5, 5, 5); m.environment = w
    a = Agent('a', m)
    try:
        w.add_agent(a, 5, 5, 5)
    except Exception:
        return []
    return [('NOTE', "SpaceWorld(m,5,5,5).add_agent(a,5,5,5) is accepted although the add_agent docstring says positions "
                     "'greater than or equal to the width, height and depth' raise. move()/move_to() also treat [0,width] as "
                     "closed in continuous worlds, so this is a docstring inconsistency, NOT counted.")]


@experiment
def zero_extent_axes_are_unbounded():
    m = Model(); w = GridWorld(m, 5, 5); m.environment = w
    a = Agent('a', m)
    try:
        w.add_agent(a, 0, 0, 7)
    except Exception:
        return []
    return [('NOTE', 'GridWorld(m,5,5).add_agent(a,0,0,7) (and z=-3) is accepted: axes with extent 0 are unbounded by '
                     'design (see CHANGELOG 0.5.3, move_to does the same). NOT counted.')]


@experiment
def non_numeric_positions_leave_no_trace():
    out = []
    for mk in (lambda m: SpaceWorld(m, 5, 5, 5), lambda m: GridWorld(m, 5, 5)):
        m = Model(); w = mk(m); m.environment = w
        r = Agent('r', m); r.add_component(C(r, m)); w.add_agent(r, 1, 1)
        a = Agent('a', m); a.add_component(C(a, m))
        before = state(w, m, [r, a])
        for bad in ('1', None, [1], 1j, object()):
            try:
                w.add_agent(a, bad, 0, 0)
                out.append(('NOTE', f'position {bad!r} accepted'))
                w.remove_agent('a')
            except Exception:
                pass
            if state(w, m, [r, a]) != before:
                out.append(('VIOLATION', f'non numeric position {bad!r} left a trace'))
    return [o for o in out if o[0] == 'VIOLATION']


# --------------------------------------------------------------------------------------------------------------
# 4. identifiers
# --------------------------------------------------------------------------------------------------------------
@experiment
def colliding_identifiers_of_different_types():
    out = []
    for mk in (lambda m: m.environment, lambda m: GridWorld(m, 3, 3)):
        m = Model(); env = mk(m); m.environment = env
        args = (1, 1) if isinstance(env, SpaceWorld) else ()
        one = Agent(1, m)
        env.add_agent(one, *args)
        for other in (True, 1.0, 1):
            before = state(env, m, [one])
            try:
                env.add_agent(Agent(other, m), *args)
                out.append(('VIOLATION', f'id {other!r} joined although it collides with 1'))
            except DuplicateAgentError as e:
                assert e.environment is env
            assert state(env, m, [one]) == before
            assert env.get_agent(other, True) is one
        env.remove_agent(True)
        assert len(env) == 0 and PositionComponent not in one
        # unhashable ids fail before anything is touched
        bad = Agent(['x'], m)
        try:
            env.add_agent(bad, *args)
            out.append(('VIOLATION', 'unhashable id joined'))
        except TypeError:
            pass
        assert len(env) == 0 and len(bad) == 0
    return out


@experiment
def environment_and_agent_share_an_identifier():
    m = Model()
    env = m.environment
    a = Agent('ENVIRONMENT', m)
    env.add_agent(a)
    inner = Environment(m)  # an environment is an agent and can live in an environment
    try:
        env.add_agent(inner)
        return [('VIOLATION', 'duplicate accepted')]
    except DuplicateAgentError:
        pass
    env.remove_agent('ENVIRONMENT')
    env.add_agent(inner)
    check_agree(env, [inner])
    return []


# --------------------------------------------------------------------------------------------------------------
# 5. operations issued from inside a running timestep, nested / completed models
# --------------------------------------------------------------------------------------------------------------
@experiment
def operations_from_inside_a_timestep():
    out = []

    class Churn(System):
        def __init__(self, model):
            super().__init__('churn', model)
            self.errors = []

        def execute(self):
            env = self.model.environment
            pos = (1, 1) if isinstance(env, SpaceWorld) else ()
            for a in env.get_agents():
                before = state(env, self.model, env.get_agents())
                for f, exc in ((lambda: env.add_agent(a, *pos), DuplicateAgentError),
                               (lambda: env.remove_agent('nobody'), AgentNotFoundError),
                               (lambda: env.get_agent('nobody', True), AgentNotFoundError)):
                    try:
                        f(); self.errors.append('no error')
                    except exc:
                        pass
                if isinstance(env, SpaceWorld):
                    try:
                        env.add_agent(Agent('oob', self.model), -1, 0); self.errors.append('oob accepted')
                    except Exception as e:
                        if type(e) is not Exception: self.errors.append(repr(e))
                if state(env, self.model, env.get_agents()) != before:
                    self.errors.append('trace')
                env.remove_agent(a.id)
                env.add_agent(a, *pos)
            if self.model.timestep == 2:
                self.model.complete()

    for mk in (lambda m: m.environment, lambda m: SpaceWorld(m, 3, 3), lambda m: GridWorld(m, 3, 3)):
        m = Model(); m.environment = mk(m)
        pos = (1, 1) if isinstance(m.environment, SpaceWorld) else ()
        ags = [Agent(i, m) for i in 'abcd']
        for a in ags:
            a.add_component(C(a, m)); m.environment.add_agent(a, *pos)
        s = Churn(m); m.systems.add_system(s)
        m.execute(5)
        if s.errors:
            out.append(('VIOLATION', f'inside timestep: {s.errors[:3]}'))
        check_agree(m.environment, ags)  # everybody left and re-joined in the same order
        assert pools(m) == {C: [id(a[C]) for a in ags]}
    return out


# --------------------------------------------------------------------------------------------------------------
# 6. exceptions crossing (process) boundaries
# --------------------------------------------------------------------------------------------------------------
@experiment
def errors_survive_pickling_and_copying():
    out = []
    for mk in (lambda m: m.environment, lambda m: GridWorld(m, 3, 3), lambda m: SpaceWorld(m, 3, 3)):
        m = Model(); env = mk(m); m.environment = env
        a = Agent('a', m); a.add_component(C(a, m))
        env.add_agent(a)
        for f in (lambda: env.add_agent(Agent('a', m)), lambda: env.remove_agent('zz'), lambda: env.get_agent('zz', True)):
            try:
                f()
            except (DuplicateAgentError, AgentNotFoundError) as e:
                e2 = pickle.loads(pickle.dumps(e))
                if not (type(e2) is type(e) and e2.args == e.args and e2.a_id == e.a_id and len(e2.environment) == 1
                        and type(e2.environment) is type(env)):
                    out.append(('VIOLATION', f'{type(e).__name__} does not survive pickling'))
        e3 = copy.deepcopy(env)
        if [x.id for x in e3] != ['a'] or len(e3) != 1 or e3.get_agent('a') is a:
            out.append(('VIOLATION', 'deepcopy of environment disagrees'))
    return out


class _BatchModel(Model):
    def __init__(self, kind=0):
        super().__init__()
        self.environment = GridWorld(self, 3, 3)
        self.environment.add_agent(Agent('a', self), 1, 1)
        if kind == 0:
            self.environment.add_agent(Agent('a', self), 1, 1)
        elif kind == 1:
            self.environment.remove_agent('zz')
        elif kind == 2:
            self.environment.get_agent('zz', True)
        elif kind == 3:
            self.environment.add_agent(Agent('b', self), 3, 1)


def _batch_child(q):
    from ECAgent.Batching import batch_run
    res = []
    for kind, exc in ((0, DuplicateAgentError), (1, AgentNotFoundError), (2, AgentNotFoundError), (3, Exception)):
        try:
            batch_run(_BatchModel, {'kind': [kind, kind]}, processes=2, max_timesteps=1)
            res.append((kind, 'no error'))
        except Exception as e:
            res.append((kind, type(e) is exc))
    q.put(res)


@experiment
def errors_cross_real_process_boundaries():
    import multiprocessing as mp
    ctx = mp.get_context('fork')
    q = ctx.Queue()
    p = ctx.Process(target=_batch_child, args=(q,))
    p.start()
    p.join(90)
    if p.is_alive():
        p.terminate()
        return [('VIOLATION', 'batch_run(processes=2) with a model raising an environment error hangs (>90s)')]
    res = q.get(timeout=5)
    bad = [r for r in res if r[1] is not True]
    return [('VIOLATION', f'wrong error type after crossing process boundary: {bad}')] if bad else []


# --------------------------------------------------------------------------------------------------------------
# 7. several models / worlds alive at once, agents shared between them
# --------------------------------------------------------------------------------------------------------------
@experiment
def independent_models_do_not_interfere():
    ms = [Model() for _ in range(3)]
    ms[1].environment = GridWorld(ms[1], 3, 3)
    ms[2].environment = SpaceWorld(ms[2], 3, 3)
    for m in ms:
        for i in 'ab':
            a = Agent(i, m); a.add_component(C(a, m))
            m.environment.add_agent(a)
    ms[0].environment.remove_agent('a')
    assert [len(m.environment) for m in ms] == [1, 2, 2]
    assert [len(m.systems[C]) for m in ms] == [1, 2, 2]
    # one agent object living in the plain environments of two different models
    m1, m2 = Model(), Model()
    a = Agent('a', m1); a.add_component(C(a, m1))
    m1.environment.add_agent(a); m2.environment.add_agent(a)
    m1.environment.remove_agent('a')
    assert len(m1.environment) == 0 and list(m2.environment) == [a] and m2.systems[C] == [a[C]] and not m1.systems.component_pools
    return []


@experiment
def same_agent_in_two_environments_of_one_model():
    m = Model()
    second = Environment(m, id='SECOND')
    a = Agent('a', m); a.add_component(C(a, m))
    m.environment.add_agent(a)
    try:
        second.add_agent(a)
        return []
    except Exception as e:
        resident = second.get_agent('a') is a
        return [('NOTE', "m=Model(); second=Environment(m,id='SECOND'); a has a component; m.environment.add_agent(a); "
                         f"second.add_agent(a) -> {type(e).__name__} (undocumented for add_agent) and the agent "
                         f"{'IS' if resident else 'is not'} resident in `second` afterwards (half-completed add). The property speaks "
                         "of one environment per history, so sharing agents between two environments of one model is "
                         "outside its scope: NOT counted.")]


@experiment
def set_model_between_add_and_remove():
    m1, m2 = Model(), Model()
    env = GridWorld(m1, 3, 3); m1.environment = env
    a = Agent('a', m1); a.add_component(C(a, m1))
    env.add_agent(a, 1, 1)
    env.set_model(m2)
    try:
        env.remove_agent('a')
        return []
    except Exception as e:
        return [('NOTE', f"env.set_model(other_model) while agents with components are resident, then env.remove_agent('a') -> "
                         f"{type(e).__name__}; agent still resident={env.get_agent('a') is a}, but its PositionComponent is "
                         f"already gone={PositionComponent not in a} (half-completed removal). Re-homing a populated environment "
                         "is not part of the stated histories: NOT counted.")]


@experiment
def value_equal_components():
    class Money(Component):
        def __init__(self, agent, model, amount):
            super().__init__(agent, model); self.amount = amount

        def __eq__(self, other):
            return isinstance(other, Money) and self.amount == other.amount

        __hash__ = None

    m = Model()
    a, b = Agent('a', m), Agent('b', m)
    a.add_component(Money(a, m, 5)); b.add_component(Money(b, m, 5))
    m.environment.add_agent(a)
    try:
        m.environment.add_agent(b)
        return []
    except Exception as e:
        return [('NOTE', "two distinct agents carrying value-equal components (Component subclass with __eq__): the second "
                         f"add_agent raises {type(e).__name__} 'already registered' and 'b' stays resident="
                         f"{m.environment.get_agent('b') is b} while unregistered. Caused by `component in pool` (==) in "
                         "SystemManager.register_component; component registration is C03's dimension: NOT counted here.")]


# --------------------------------------------------------------------------------------------------------------
# 8. subclasses of the package's classes, falsy agents / environments
# --------------------------------------------------------------------------------------------------------------
@experiment
def subclasses_and_falsy_objects():
    class MyAgent(Agent):
        def __bool__(self): return False

        def __eq__(self, other): return True  # hostile equality

        __hash__ = None

    class MyGrid(GridWorld):
        def __bool__(self): return False

    m = Model(); g = MyGrid(m, 2, 2); m.set_environment(g)
    ags = [MyAgent(i, m) for i in (0, '', 'x')]
    for a in ags:
        g.add_agent(a, 1, 1)
    assert len(g) == 3 and all(x is y for x, y in zip(g, ags)) and all(x is y for x, y in zip(g.get_agents(), ags))
    try:
        g.add_agent(MyAgent('', m)); return [('VIOLATION', 'dup accepted')]
    except DuplicateAgentError as e:
        assert e.environment is g
    g.remove_agent(0); g.remove_agent(''); g.remove_agent('x')
    assert len(g) == 0 and not any(PositionComponent in a.components for a in ags)
    try:
        g.remove_agent(0); return [('VIOLATION', 'unknown removed')]
    except AgentNotFoundError:
        pass
    return []


@experiment
def readd_cycles_and_world_hopping():
    m = Model(); g = GridWorld(m, 3, 3); m.environment = g
    m2 = Model(); s = SpaceWorld(m2, 9.5, 9.5, 9.5); m2.environment = s
    a = Agent('a', m); a.add_component(C(a, m))
    for i in range(20):
        g.add_agent(a, i % 3, 2)
        assert a[PositionComponent].xyz() == (i % 3, 2, 0)
        g.remove_agent('a')
        s.add_agent(a, 9.5, 0.0, i / 3)
        s.remove_agent('a')
    assert len(g) == len(s) == 0 and not m.systems.component_pools and not m2.systems.component_pools and list(a.components) == [C]
    return []


# --------------------------------------------------------------------------------------------------------------
if __name__ == '__main__':
    print()
    roots = sorted({'Environment.add_agent builds DuplicateAgentError from self.model.environment instead of self'
                    if n.startswith('duplicate_error_') else n for n, _ in VIOLATIONS})
    print(f'{len(VIOLATIONS)} violating experiment(s) -> {len(roots)} distinct root cause(s); '
          f'{len(NOTES)} out-of-scope note(s) (not counted)')
    for r in roots:
        print('  root cause:', r)
    sys.exit(1 if VIOLATIONS else 0)
