"""Second-pass bug hunt for property C04:

  "Environment holds exactly the live agents; failed operations leave no trace"

Run with:  cd /tmp/wt-C04-i && PYTHONPATH=/tmp/wt-C04-i /venv/bin/python hunt.py

Every experiment prints OK, VIOLATION (genuine, in scope -> exit code 1) or NOTE (outside the stated scope, already
decided, or unspecified -> never counted).  Only the public API of the package is used.
"""
import copy
import math
import pickle
import random
import sys
import traceback
import warnings
from fractions import Fraction

warnings.simplefilter('ignore')

import numpy as np

import ECAgent
from ECAgent.Core import (Agent, AgentNotFoundError, Component, DuplicateAgentError, Environment, Model, System)
from ECAgent.Environments import (DiscreteWorld, GridWorld, LineWorld, PositionComponent, SpaceWorld)

VIOLATIONS = []
NOTES = []


def report(name, problems, note=False):
    if not problems:
        print(f'[OK]        {name}')
        return
    print(f'[{"NOTE" if note else "VIOLATION"}]{" " * (6 if note else 1)}{name}')
    for p in problems:
        print(f'              - {p}')
    (NOTES if note else VIOLATIONS).append(name)


def experiment(name, note=False):
    def deco(fn):
        try:
            problems = fn() or []
        except Exception:
            problems = ['experiment crashed:\n' + traceback.format_exc()]
        report(name, problems, note=note)
        return fn
    return deco


class C1(Component):
    pass


class C2(Component):
    __slots__ = ['v']

    def __init__(self, agent, model, v=0):
        super().__init__(agent, model)
        self.v = v


class Sheep(Agent):
    pass


class SlotWolf(Agent):
    __slots__ = ['energy']


class StrId(str):
    pass


class FailingModel(Model):
    def __init__(self, kind, n):
        super().__init__()
        self.environment = GridWorld(self, 3, 3)
        for i in range(n):
            a = Agent(i, self)
            a.add_component(C1(a, self))
            self.environment.add_agent(a, i, 0)
        if kind == 'dup':
            self.environment.add_agent(Agent(0, self))
        elif kind == 'ghost':
            self.environment.remove_agent('ghost')
        else:
            self.environment.add_agent(Agent('o', self), 0, 3)


WORLD_KINDS = {
    'default': lambda m: None,
    'plain-new': lambda m: Environment(m, id='E2'),
    'space3d': lambda m: SpaceWorld(m, 5, 4, 3),
    'space2d-float-wrap': lambda m: SpaceWorld(m, 4.5, 3.5, 0, wrap_env=True),
    'discrete3d': lambda m: DiscreteWorld(m, 3, 4, 2),
    'line': lambda m: LineWorld(m, 4),
    'grid': lambda m: GridWorld(m, 3, 2),
    'grid-1x1': lambda m: GridWorld(m, 1, 1),
}


def make_model(kind):
    m = Model(seed=1)
    w = WORLD_KINDS[kind](m)
    if w is not None:
        m.environment = w
    return m


def extents(env):
    return [env.width, env.height, env.depth]


def legal_pos(env, rnd):
    pos = []
    for e in extents(env):
        if e <= 0:
            pos.append(0)
        elif isinstance(env, DiscreteWorld):
            pos.append(rnd.randrange(0, e))
        else:
            pos.append(rnd.choice([0, rnd.random() * e * 0.999, int(e) - 1 if e >= 1 else 0, -0.0]))
    return tuple(pos)


def oob_positions(env):
    """every axis with a positive extent, both sides, several numeric flavours"""
    out = []
    for axis, e in enumerate(extents(env)):
        if e <= 0:
            continue  # zero-extent axes are unspecified
        hi = e if isinstance(env, DiscreteWorld) else e + 0.001  # x == width is unspecified in continuous worlds
        for bad in (-1, -0.001, -10 ** 30, float('-inf'), np.int64(-1), Fraction(-1, 3),
                    hi, e + 1, 10 ** 30, float('inf'), np.float64(e + 1), np.int64(int(e) + 1), True + e):
            p = [0, 0, 0]
            p[axis] = bad
            out.append(tuple(p))
    return out


def snapshot(model, env, agents):
    """Everything the property talks about: environment content/order, every agent's component dict (identity, order,
    managed position values) and the component listings of the model."""
    pools = model.systems.component_pools if model is not None else {}
    return (
        [(k, id(v)) for k, v in env.agents.items()],
        [(id(a), a.id, [(t, id(c)) for t, c in a.components.items()],
          a[PositionComponent].xyz() if PositionComponent in a else None, a.tag, id(a.model)) for a in agents],
        [(t, [id(c) for c in lst]) for t, lst in pools.items()],
    )


def consistency(env, shadow, where):
    """lookup by identifier, length, iteration and listing all agree with the shadow list (joining order)."""
    out = []
    it = list(env)
    if len(it) != len(shadow) or any(a is not b for a, b in zip(it, shadow)):
        out.append(f'{where}: iteration {[a.id for a in it]} != expected joining order {[a.id for a in shadow]}')
    lst = env.get_agents()
    if len(lst) != len(shadow) or any(a is not b for a, b in zip(lst, shadow)):
        out.append(f'{where}: get_agents() {[a.id for a in lst]} != expected {[a.id for a in shadow]}')
    if len(env) != len(shadow):
        out.append(f'{where}: len {len(env)} != {len(shadow)}')
    if bool(env) != bool(shadow):
        out.append(f'{where}: truthiness of the environment disagrees with its length')
    for a in shadow:
        if env.get_agent(a.id) is not a or env.get_agent(a.id, True) is not a or env.get_agent(a.id, throw_error=True) is not a:
            out.append(f'{where}: lookup of {a.id!r} does not return the resident agent')
        if isinstance(env, SpaceWorld):
            if PositionComponent not in a:
                out.append(f'{where}: resident {a.id!r} has no PositionComponent')
    ids = [a.id for a in shadow]
    if len(set(map(lambda i: (hash(i), i), ids))) != len(ids):
        out.append(f'{where}: two residents share an identifier')
    if len(env.shuffle()) != len(shadow) or set(map(id, env.shuffle())) != set(map(id, shadow)):
        out.append(f'{where}: shuffle() is not a permutation of the residents')
    r = env.get_random_agent()
    if (r is None) != (not shadow) or (r is not None and all(r is not a for a in shadow)):
        out.append(f'{where}: get_random_agent() returned {r!r}')
    if isinstance(env, SpaceWorld):
        everywhere = env.get_agents_at(0, 0, 0, leeway=10 ** 40)
        if [id(a) for a in everywhere] != [id(a) for a in shadow]:
            out.append(f'{where}: get_agents_at(huge leeway) disagrees with the residents')
    return out


def make_pool(model):
    """agents with colliding and distinct identifiers, some with components (never modified while resident)"""
    ids = ['a', 'b', 'a', 0, False, '', None, 1, 1.0, StrId('b'), (1, 2), 'c', -0.0]
    classes = [Agent, Sheep, SlotWolf]
    pool = []
    for i, ident in enumerate(ids):
        a = classes[i % 3](ident, model)
        if i % 2 == 0:
            a.add_component(C1(a, model))
        if i % 3 == 0:
            a.add_component(C2(a, model, i))
        pool.append(a)
    return pool


def key_taken(shadow, ident):
    return any(ident == a.id and hash(ident) == hash(a.id) for a in shadow)


def campaign(kind, seed, steps=250):
    rnd = random.Random(seed)
    model = make_model(kind)
    env = model.environment
    pool = make_pool(model)
    shadow = []
    expected_pos = {}
    tag = ''

    def inject_errors(state):
        """every error path at the current state; each must raise the documented error and change nothing"""
        out = []
        before = snapshot(model, env, pool)

        def expect(exc_type, fn, what, exact=False):
            try:
                fn()
                out.append(f'{state}: {what} did not raise')
            except Exception as e:  # noqa
                ok = type(e) is exc_type if exact else isinstance(e, exc_type)
                if not ok:
                    out.append(f'{state}: {what} raised {type(e).__name__}: {e} instead of {exc_type.__name__}')
                elif exc_type in (AgentNotFoundError, DuplicateAgentError):
                    if e.environment is not env:
                        out.append(f'{state}: {what}: error names the wrong environment')
                    if repr(e.a_id) not in repr(e.message) and str(e.a_id) not in e.message:
                        out.append(f'{state}: {what}: message does not mention the id')
            after = snapshot(model, env, pool)
            if after != before:
                out.append(f'{state}: {what} left a trace\n   before={before}\n   after ={after}')

        # duplicate ids: every pool agent whose id is taken (the resident itself, and its colliding twins)
        for a in pool:
            if key_taken(shadow, a.id):
                if isinstance(env, SpaceWorld):
                    p = legal_pos(env, rnd)
                    expect(DuplicateAgentError, lambda: env.add_agent(a, *p), f'add_agent(duplicate {a.id!r} at {p})')
                else:
                    expect(DuplicateAgentError, lambda: env.add_agent(a), f'add_agent(duplicate {a.id!r})')
        # unknown ids
        for ident in ['ghost', 2, None, '', 0, 'A', ('x',), 1.5, StrId('zz')]:
            if not key_taken(shadow, ident):
                expect(AgentNotFoundError, lambda: env.remove_agent(ident), f'remove_agent(unknown {ident!r})')
                expect(AgentNotFoundError, lambda: env.get_agent(ident, True), f'get_agent(unknown {ident!r}, True)')
                if env.get_agent(ident) is not None:
                    out.append(f'{state}: lenient lookup of unknown {ident!r} is not None')
        # out of bounds, for a non-resident agent AND for a resident one
        if isinstance(env, SpaceWorld):
            absent = [a for a in pool if not key_taken(shadow, a.id)]
            cands = absent[:1] + shadow[:1]
            for a in cands:
                for p in oob_positions(env):
                    expect(Exception, lambda: env.add_agent(a, *p), f'add_agent({a.id!r} at {p})', exact=True)
        return out

    for step in range(steps):
        a = rnd.choice(pool)
        resident = any(a is s for s in shadow)
        if resident and rnd.random() < 0.6:
            env.remove_agent(a.id)  # must always succeed
            shadow[:] = [s for s in shadow if s is not a]
            tag = f'[{kind} seed {seed} step {step}] after remove {a.id!r}'
            if PositionComponent in a:
                return [f'{tag}: PositionComponent not removed']
        elif not resident and not key_taken(shadow, a.id):
            if isinstance(env, SpaceWorld):
                p = legal_pos(env, rnd)
                env.add_agent(a, *p)
                if a[PositionComponent].xyz() != p:
                    return [f'position {a[PositionComponent].xyz()} != requested {p}']
            else:
                env.add_agent(a)
            shadow.append(a)
            tag = f'[{kind} seed {seed} step {step}] after add {a.id!r}'
        else:
            continue
        probs = consistency(env, shadow, tag)
        if step % 5 == 0 or len(shadow) in (0, 1):
            probs += inject_errors(tag)
            probs += consistency(env, shadow, tag + ' + error injection')
        # listings mirror the residents (C03 cross-check, components never change while resident)
        for t in (C1, C2):
            exp = [s[t] for s in shadow if t in s]
            got = model.systems[t]
            if (got or []) != exp or (got is not None and not got):
                probs.append(f'{tag}: listing of {t.__name__} wrong')
        if model.systems[PositionComponent] is not None:
            probs.append(f'{tag}: managed PositionComponent leaked into the listings')
        if probs:
            return probs
    return []


@experiment('01 random add/remove/lookup histories with every error path injected, 8 environments x 6 seeds')
def _():
    for kind in WORLD_KINDS:
        for seed in range(6):
            p = campaign(kind, seed)
            if p:
                return p[:6]


@experiment('02 error injection at the empty state and at the full state of every environment')
def _():
    probs = []
    for kind in WORLD_KINDS:
        m = make_model(kind)
        env = m.environment
        pool = make_pool(m)
        before = snapshot(m, env, pool)
        for call in (lambda: env.remove_agent('a'), lambda: env.get_agent('a', True), lambda: env.remove_agent(None)):
            try:
                call()
                probs.append(f'[{kind}] unknown id accepted on an empty environment')
            except AgentNotFoundError:
                pass
        if snapshot(m, env, pool) != before:
            probs.append(f'[{kind}] trace on the empty environment')
        added = []
        for a in pool:
            try:
                env.add_agent(a)
                added.append(a)
            except DuplicateAgentError:
                pass
        if [a.id for a in added] != ['a', 'b', 0, '', None, 1, (1, 2), 'c']:
            probs.append(f'[{kind}] unexpected set of accepted ids {[a.id for a in added]}')
        probs += consistency(env, added, f'[{kind} full]')
        before = snapshot(m, env, pool)
        for a in pool:
            try:
                env.add_agent(a)
                probs.append(f'[{kind}] {a.id!r} accepted twice')
            except DuplicateAgentError:
                pass
        if snapshot(m, env, pool) != before:
            probs.append(f'[{kind}] trace after duplicate storm')
        for a in list(added):
            env.remove_agent(a.id)
        probs += consistency(env, [], f'[{kind} emptied]')
        if m.systems.component_pools:
            probs.append(f'[{kind}] pools not empty at the end')
    return probs


@experiment('03 removal through an equal-but-different key (True for 1, 0.0 for 0, str subclass) and re-adding twins')
def _():
    probs = []
    for kind in WORLD_KINDS:
        m = make_model(kind)
        env = m.environment
        one, tru, flt = Agent(1, m), Agent(True, m), Agent(1.0, m)
        env.add_agent(one)
        env.remove_agent(True)
        probs += consistency(env, [], f'[{kind}]')
        env.add_agent(flt)
        for twin in (one, tru):
            try:
                env.add_agent(twin)
                probs.append(f'[{kind}] twin {twin.id!r} accepted')
            except DuplicateAgentError:
                pass
        if env.get_agent(1) is not flt or env.get_agent(True, True) is not flt:
            probs.append(f'[{kind}] lookup through equal key fails')
        env.remove_agent(1)
        s = Agent('x', m)
        env.add_agent(s)
        env.remove_agent(StrId('x'))
        probs += consistency(env, [], f'[{kind} end]')
    return probs


@experiment('04 operations from inside a running timestep and on a completed model')
def _():
    probs = []
    for kind in WORLD_KINDS:
        m = make_model(kind)
        env = m.environment
        shadow = []

        class Churn(System):
            def execute(self):
                t = self.model.timestep
                a = Agent(t, self.model)
                a.add_component(C1(a, self.model))
                self.model.environment.add_agent(a)
                shadow.append(a)
                try:
                    self.model.environment.add_agent(Agent(t, self.model))
                    probs.append('duplicate accepted in timestep')
                except DuplicateAgentError:
                    pass
                if t % 3 == 2:
                    victim = shadow.pop(0)
                    self.model.environment.remove_agent(victim.id)
                try:
                    self.model.environment.remove_agent('ghost')
                    probs.append('ghost removed')
                except AgentNotFoundError:
                    pass
                if t == 7:
                    self.model.complete()

        class Check(System):
            def execute(self):
                nonlocal probs
                probs += consistency(self.model.environment, shadow, f'[{kind} t={self.model.timestep}]')

        m.systems.add_system(Churn('churn', m, priority=2))
        m.systems.add_system(Check('check', m, priority=1))
        m.execute(12)
        if m.timestep != 8:
            probs.append(f'[{kind}] completed model kept running: {m.timestep}')
        # completed (falsy) model: environment still works
        for a in list(shadow):
            env.remove_agent(a.id)
        shadow.clear()
        x = Agent('late', m)
        env.add_agent(x)
        probs += consistency(env, [x], f'[{kind} completed]')
    return probs


@experiment('05 several models / environments alive at once with the same ids; errors name the right environment')
def _():
    probs = []
    ms = [make_model(k) for k in WORLD_KINDS]
    for i, m in enumerate(ms):
        m.environment.id = f'env{i}'
    res = []
    for m in ms:
        a = Agent('same', m)
        a.add_component(C1(a, m))
        m.environment.add_agent(a)
        res.append(a)
    for i, m in enumerate(ms):
        try:
            m.environment.add_agent(Agent('same', m))
        except DuplicateAgentError as e:
            if e.environment is not m.environment or f'env{i}' not in str(e):
                probs.append(f'model {i}: wrong environment in {e}')
        try:
            m.environment.remove_agent('other')
        except AgentNotFoundError as e:
            if e.environment is not m.environment or f'env{i}' not in str(e):
                probs.append(f'model {i}: wrong environment in {e}')
        probs += consistency(m.environment, [res[i]], f'[model {i}]')
    ms[0].environment.remove_agent('same')
    for i, m in enumerate(ms[1:], 1):
        probs += consistency(m.environment, [res[i]], f'[model {i} after foreign removal]')
    return probs


@experiment('06 an environment that is not model.environment (second environment of the model) obeys the same rules')
def _():
    probs = []
    m = Model()
    for mk in (lambda: Environment(m, id='side'), lambda: GridWorld(m, 2, 2, id='side'), lambda: SpaceWorld(m, 2, 2, 2, id='side')):
        env = mk()
        a, twin = Agent('a', m), Agent('a', m)
        a.add_component(C1(a, m))
        twin.add_component(C1(twin, m))
        env.add_agent(a)
        before = snapshot(m, env, [a, twin])
        for call, exc in ((lambda: env.add_agent(twin), DuplicateAgentError), (lambda: env.add_agent(a), DuplicateAgentError),
                          (lambda: env.remove_agent('zz'), AgentNotFoundError), (lambda: env.get_agent('zz', True), AgentNotFoundError)):
            try:
                call()
                probs.append('no error')
            except exc as e:
                if e.environment is not env or 'side' not in str(e):
                    probs.append(f'error names the wrong environment: {e}')
        if snapshot(m, env, [a, twin]) != before:
            probs.append(f'{type(env).__name__}: trace left')
        env.remove_agent('a')
        probs += consistency(env, [], f'[{type(env).__name__} side]')
        if len(m.environment) != 0:
            probs.append('model.environment was touched')
    return probs


@experiment('07 exceptions are picklable and survive a real process boundary (batch_run, processes=2, 60 s timeout)')
def _():
    import multiprocessing as mp
    probs = []
    m = make_model('grid')
    a = Agent('a', m)
    a.add_component(C1(a, m))
    m.environment.add_agent(a, 1, 1)
    for call in (lambda: m.environment.add_agent(Agent('a', m)), lambda: m.environment.remove_agent('q')):
        try:
            call()
        except (DuplicateAgentError, AgentNotFoundError) as e:
            e2 = pickle.loads(pickle.dumps(e))
            if type(e2) is not type(e) or e2.a_id != e.a_id or str(e2) != str(e) or len(e2.environment) != 1:
                probs.append(f'{type(e).__name__} does not survive pickling')
            e3 = copy.deepcopy(e)
            if str(e3) != str(e):
                probs.append(f'{type(e).__name__} does not survive deepcopy')

    q = mp.get_context('fork').Queue()

    def work(q):
        import ECAgent.Batching as B
        got = []
        for kind in ('dup', 'ghost', 'oob'):
            try:
                B.batch_run(FailingModel, {'kind': [kind], 'n': [1, 2]}, processes=2, max_timesteps=2)
                got.append((kind, 'no error'))
            except BaseException as e:  # noqa
                got.append((kind, type(e).__name__, str(e)))
        q.put(got)

    p = mp.get_context('fork').Process(target=work, args=(q,))
    p.start()
    p.join(60)
    if p.is_alive():
        p.terminate()
        return probs + ['batch_run(processes=2) with a failing model hung for 60 s']
    got = q.get(timeout=5)
    want = {'dup': 'DuplicateAgentError', 'ghost': 'AgentNotFoundError', 'oob': 'Exception'}
    for rec in got:
        if rec[1] != want[rec[0]]:
            probs.append(f'worker failure {rec[0]} arrived in the parent as {rec[1:]}')
    return probs


@experiment('08 deepcopy / pickle of a populated environment keeps order, lookup and error behaviour')
def _():
    probs = []
    for kind in WORLD_KINDS:
        m = make_model(kind)
        pool = make_pool(m)
        for a in pool:
            try:
                m.environment.add_agent(a)
            except DuplicateAgentError:
                pass
        m.environment.remove_agent('a')
        m.environment.add_agent(pool[0])
        order = [a.id for a in m.environment]
        for how, clone in (('deepcopy', copy.deepcopy(m)), ('pickle', pickle.loads(pickle.dumps(m)))):
            env = clone.environment
            if [a.id for a in env] != order:
                probs.append(f'[{kind} {how}] order changed: {[a.id for a in env]}')
            probs += consistency(env, list(env), f'[{kind} {how}]')
            try:
                env.add_agent(Agent('a', clone))
                probs.append(f'[{kind} {how}] duplicate accepted in the clone')
            except DuplicateAgentError as e:
                if e.environment is not env:
                    probs.append(f'[{kind} {how}] clone error names the original environment')
            for a in list(env):
                env.remove_agent(a.id)
            if len(m.environment) != len(order):
                probs.append(f'[{kind} {how}] emptying the clone touched the original')
    return probs


@experiment('09 hash-seed independence of the iteration order (3 subprocesses with different PYTHONHASHSEED)')
def _():
    import os
    import subprocess
    code = (
        "from ECAgent.Core import *\n"
        "from ECAgent.Environments import *\n"
        "m=Model(); m.environment=GridWorld(m,3,3)\n"
        "ids=['x','b','a',0,'',None,(1,2),'zz',3.5,frozenset({1})]\n"
        "[m.environment.add_agent(Agent(i,m)) for i in ids]\n"
        "m.environment.remove_agent('a'); m.environment.add_agent(Agent('a',m)); m.environment.remove_agent(0)\n"
        "print([a.id for a in m.environment], [a.id for a in m.environment.get_agents()])\n")
    outs = set()
    for seed in ('0', '1', '12345'):
        env = dict(os.environ, PYTHONHASHSEED=seed, PYTHONPATH=os.path.dirname(os.path.dirname(ECAgent.__file__)))
        r = subprocess.run([sys.executable, '-W', 'ignore', '-c', code], env=env, capture_output=True, text=True, timeout=120)
        if r.returncode:
            return [r.stderr[-400:]]
        outs.add(r.stdout)
    if len(outs) != 1:
        return [f'iteration order depends on the hash seed: {outs}']
    want = "['x', 'b', '', None, (1, 2), 'zz', 3.5, frozenset({1}), 'a']"
    if not next(iter(outs)).startswith(want):
        return [f'order is {outs}, expected {want}']


@experiment('10 deprecated spellings addAgent / removeAgent obey the same rules (incl. spatial worlds)')
def _():
    probs = []
    for kind in WORLD_KINDS:
        m = make_model(kind)
        env = m.environment
        a = Agent('a', m)
        env.addAgent(a)
        try:
            env.addAgent(Agent('a', m))
            probs.append(f'[{kind}] duplicate accepted by addAgent')
        except DuplicateAgentError:
            pass
        try:
            env.removeAgent('b')
            probs.append(f'[{kind}] ghost removed by removeAgent')
        except AgentNotFoundError:
            pass
        probs += consistency(env, [a], f'[{kind}]')
        env.removeAgent('a')
        probs += consistency(env, [], f'[{kind}]')
    return probs


@experiment('11 a rejected placement never shadows a later legal one; a rejected duplicate never moves the resident')
def _():
    probs = []
    for kind in [k for k in WORLD_KINDS if k not in ('default', 'plain-new')]:
        m = make_model(kind)
        env = m.environment
        a = Agent('a', m)
        for p in oob_positions(env):
            try:
                env.add_agent(a, *p)
                probs.append(f'[{kind}] {p} accepted')
                env.remove_agent('a')
            except Exception as e:
                if type(e) is not Exception:
                    probs.append(f'[{kind}] {p}: {type(e).__name__}')
        if len(a.components) or len(env):
            probs.append(f'[{kind}] trace after rejected placements')
        env.add_agent(a, 0, 0, 0)
        twin = Agent('a', m)
        for target in (a, twin):
            try:
                env.add_agent(target, *[max(0, int(e) - 1) for e in extents(env)])
                probs.append(f'[{kind}] duplicate accepted')
            except DuplicateAgentError:
                pass
        if a[PositionComponent].xyz() != (0, 0, 0) or len(twin.components):
            probs.append(f'[{kind}] rejected duplicate left a trace')
    return probs


# --------------------------------------------------------------------------------------------------------------------
# Candidate finding: model-less environment (Environment(None)) - see HUNT.md for the scope discussion
# --------------------------------------------------------------------------------------------------------------------
@experiment('F1 (not counted, scope unclear) model-less environment: add_agent of an agent that carries a component '
            'raises AttributeError AFTER the agent became resident, and that agent can never be removed again', note=True)
def _():
    out = []
    for mk in (lambda: Environment(None), lambda: GridWorld(None, 3, 3), lambda: SpaceWorld(None, 3, 3, 3)):
        env = mk()
        plain = Agent('p', None)
        env.add_agent(plain)  # fine, this is what the package's own tests do
        a = Agent('a', None)
        a.add_component(C1(a, None))
        try:
            env.add_agent(a)
            continue
        except AttributeError as e:
            msg = f'{type(env).__name__}(None): add_agent(agent with one component) -> AttributeError({e}); '
        msg += f'yet len(env) == {len(env)} and get_agent("a") is a == {env.get_agent("a") is a}'
        if isinstance(env, SpaceWorld):
            msg += f'; resident without PositionComponent: {PositionComponent not in a}'
        try:
            env.remove_agent('a')
            msg += '; remove_agent works'
        except Exception as e:
            msg += f'; remove_agent("a") -> {type(e).__name__}, agent still resident: {"a" in env.agents}'
        out.append(msg)
    return out


@experiment('N1 (not counted) "agent in env" / env[id] are the inherited component operators, not membership / lookup',
            note=True)
def _():
    m = Model()
    a = Agent('a', m)
    m.environment.add_agent(a)
    out = []
    if (a in m.environment) is False and a in list(m.environment):
        out.append('`a in env` is False for a resident agent (Environment inherits Agent.__contains__ == has_component) '
                   'while `a in list(env)` is True; the statement lists lookup, length, iteration and listing only, '
                   'and the operator is documented as a component test, so this is not counted')
    if m.environment['a'] is None:
        out.append("`env['a']` is None (inherited Agent.__getitem__ == get_component)")
    return out


@experiment('N2 (not counted) unhashable identifiers raise TypeError, not AgentNotFoundError', note=True)
def _():
    m = Model()
    out = []
    for call, what in ((lambda: m.environment.get_agent([1], True), 'get_agent([1], True)'),
                       (lambda: m.environment.remove_agent([1]), 'remove_agent([1])')):
        try:
            call()
        except TypeError:
            out.append(f'{what} -> TypeError; an unhashable object can never be an identifier, environment untouched')
        except AgentNotFoundError:
            pass
    return out


@experiment('N3 (not counted) zero-extent axis of a grid world is not bounds-checked', note=True)
def _():
    m = make_model('grid')
    a = Agent('a', m)
    m.environment.add_agent(a, 0, 0, 99)
    return [f'GridWorld(3,2).add_agent(a, 0, 0, 99) accepted, position {a[PositionComponent].xyz()} - already decided '
            f'as unspecified (zero-extent axes)']


@experiment('N4 (not counted) removing residents while iterating the environment raises RuntimeError', note=True)
def _():
    m = Model()
    for i in range(3):
        m.environment.add_agent(Agent(i, m))
    try:
        for a in m.environment:
            m.environment.remove_agent(a.id)
    except RuntimeError as e:
        return [f'`for a in env: env.remove_agent(a.id)` -> RuntimeError({e}); the removal itself succeeded, '
                f'len(env) == {len(m.environment)}; ordinary dict semantics (iterate over env.get_agents() instead)']


@experiment('N5 (not counted) agent with a component already resident in another environment of the SAME model: '
            'add_agent raises KeyError after the agent became resident', note=True)
def _():
    m = Model()
    side = Environment(m, id='side')
    a = Agent('a', m)
    a.add_component(C1(a, m))
    m.environment.add_agent(a)
    try:
        side.add_agent(a)
    except KeyError as e:
        return [f'side.add_agent(a) -> KeyError, but len(side) == {len(side)}; same family as "one agent resident in '
                f'two worlds at once", which was decided to be outside the scope']


print()
print(f'ECAgent under test: {ECAgent.__file__}')
print(f'genuine in-scope violations: {len(VIOLATIONS)}   notes / candidates (not counted): {len(NOTES)}')
sys.exit(1 if VIOLATIONS else 0)
