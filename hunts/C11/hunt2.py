"""Second-pass bug hunt for the property

    "Cell components hold each cell's own value and are independent of sources"

Run with:   cd /tmp/wt-C11-i && PYTHONPATH=/tmp/wt-C11-i /venv/bin/python hunt.py

Public API only.  Every experiment prints OK, VIOLATION (counted: inside the stated scope) or NOTE (observed, but
outside the stated scope / unspecified / already recorded - not counted).  Exit status 1 iff at least one VIOLATION.
"""
import datetime as dt
import decimal
import enum
import hashlib
import os
import pickle
import random
import subprocess
import sys
import warnings

import numpy as np

from ECAgent.Core import Model, Agent, Component, System, ComponentNotFoundError
from ECAgent.Collectors import Collector
from ECAgent.Environments import (DiscreteWorld, LineWorld, GridWorld, ConstantGenerator, LookupGenerator,
                                  discrete_grid_pos_to_id)

VIOLATIONS = []
NOTES = []


def same(a, b):
    """Value identity: same object, or equal (NaN == NaN), and 0.0 / -0.0 told apart."""
    if a is b:
        return True
    try:
        if isinstance(a, np.ndarray) or isinstance(b, np.ndarray):
            return bool(np.array_equal(a, b))
        if a != a and b != b:
            return True
        if not bool(a == b):
            return False
        if isinstance(a, (float, np.floating)) and isinstance(b, (float, np.floating)) and a == 0:
            return bool(np.signbit(a) == np.signbit(b))
        return True
    except Exception:
        return False


def same_list(got, want):
    got, want = list(got), list(want)
    return len(got) == len(want) and all(same(g, w) for g, w in zip(got, want))


def snapshot(env):
    return ([str(c) for c in env.cells.columns], {str(c): list(env.cells[c]) for c in env.cells.columns},
            list(env.cells.index))


def snap_equal(s1, s2):
    return s1[0] == s2[0] and s1[2] == s2[2] and all(same_list(s1[1][k], s2[1][k]) for k in s1[1])


EXPERIMENTS = []


def experiment(title):
    def deco(fn):
        EXPERIMENTS.append((title, fn))  # run from __main__ only (the script re-invokes itself for some angles)
        return fn
    return deco


def run_experiments():
    for title, fn in EXPERIMENTS:
        try:
            problems = fn() or []
        except Exception as e:  # an experiment that blows up is reported, never silently skipped
            problems = [f'experiment crashed: {type(e).__name__}: {e}']
        if problems:
            print(f'VIOLATION  {title}')
            for p in problems:
                print(f'           - {p}')
            VIOLATIONS.append((title, problems))
        else:
            print(f'OK         {title}')


def note(title, text):
    print(f'NOTE       {title}\n           - {text}')
    NOTES.append((title, text))


def val(pos):
    """Position dependent value that makes every cell distinguishable."""
    return pos[0] + 100 * pos[1] + 10000 * pos[2]


REGULAR_SHAPES = [(1, 0, 0), (5, 0, 0), (0, 0, 0), (3, 2, 0), (1, 1, 0), (4, 1, 0), (1, 4, 0), (2, 3, 4), (1, 1, 1),
                  (3, 1, 2), (1, 2, 3), (1, 1, 5), (7, 3, 1)]
# shapes with a zero extent *before* a non-zero one
GAP_SHAPES = [(0, 3, 0), (0, 0, 3), (3, 0, 2), (0, 2, 2), (1, 0, 3)]


def make(model, shape):
    w, h, d = shape
    if h == 0 and d == 0 and w >= 1:
        return LineWorld(model, w)
    if d == 0 and w >= 1 and h >= 1:
        return GridWorld(model, w, h)
    return DiscreteWorld(model, w, h, d)


def expected_positions(shape):
    w, h, d = (max(s, 1) for s in shape)
    return [(x, y, z) for z in range(d) for y in range(h) for x in range(w)]


# ---------------------------------------------------------------------------------------------------------------------
# 1. every source kind on every regular shape
# ---------------------------------------------------------------------------------------------------------------------
@experiment('01 callable / list / ndarray / Constant / Lookup on line, 2-D, 3-D and degenerate (1- or 0-sized) grids')
def _():
    bad = []
    m = Model()
    for shape in REGULAR_SHAPES:
        env = make(m, shape)
        pos = expected_positions(shape)
        if list(env.cells['pos']) != pos:
            bad.append(f'{shape}: set of cells is {list(env.cells["pos"])}')
            continue
        n = len(pos)
        ids = [discrete_grid_pos_to_id(p[0], p[1], env.width, p[2], env.height) for p in pos]
        if ids != list(range(n)):
            bad.append(f'{shape}: documented cell ids {ids} are not the row numbers')
        want = [val(p) for p in pos]
        calls = []
        env.add_cell_component('call', lambda p, c: (calls.append(p), val(p))[1])
        if calls != pos:
            bad.append(f'{shape}: generator called with {calls}')
        env.add_cell_component('list', list(want))
        env.add_cell_component('arr', np.array(want))
        env.add_cell_component('farr', np.array(want, dtype=float) / 7)
        env.add_cell_component('const', ConstantGenerator(shape))
        w, h, d = (max(s, 1) for s in shape)
        t3 = [[[val((x, y, z)) for z in range(d)] for y in range(h)] for x in range(w)]
        env.add_cell_component('look3', LookupGenerator(t3))
        env.add_cell_component('look3np', LookupGenerator(np.array(t3)))
        env.add_cell_component('look3tup', LookupGenerator(tuple(tuple(tuple(r) for r in p) for p in t3)))
        # table with exactly the world's dimensionality (trailing unused axes dropped)
        ndim = 3 if shape[2] > 0 else 2 if shape[1] > 0 else 1
        if ndim == 2:
            tn = [[val((x, y, 0)) for y in range(h)] for x in range(w)]
        elif ndim == 1:
            tn = [val((x, 0, 0)) for x in range(w)]
        else:
            tn = t3
        env.add_cell_component('lookn', LookupGenerator(tn))
        env.add_cell_component('looknnp', LookupGenerator(np.array(tn)))
        for name in ('call', 'list', 'arr', 'look3', 'look3np', 'look3tup', 'lookn', 'looknnp'):
            if not same_list(env.cells[name], want):
                bad.append(f'{shape}: component {name!r} holds {list(env.cells[name])}, expected {want}')
        if not same_list(env.cells['farr'], [v / 7 for v in np.array(want, dtype=float)]):
            bad.append(f'{shape}: float array component differs')
        if not all(v == shape for v in env.cells['const']):
            bad.append(f'{shape}: constant component holds {list(env.cells["const"])}')
        if list(env.cells['pos']) != pos or len(env.cells) != n:
            bad.append(f'{shape}: the set of cells changed')
    return bad


# ---------------------------------------------------------------------------------------------------------------------
# 2. value kinds (falsy, bool/int/float, numpy scalars, -0.0, huge ints, str subclasses, containers, package objects)
# ---------------------------------------------------------------------------------------------------------------------
class _Colour(enum.IntEnum):
    R = 1
    G = 2


class _Kind(enum.Enum):
    A = 'a'
    B = 'b'


class _S(str):
    pass


class _C1(Component):
    pass


@experiment('02 homogeneous value kinds through list, callable, Constant and Lookup sources (3-cell line)')
def _():
    bad = []
    m = Model()
    tz = dt.timezone(dt.timedelta(hours=2))
    agents = [Agent(f'a{i}', m) for i in range(3)]
    agents[1].add_component(_C1(agents[1], m))  # Agent defines __len__/__getitem__: must not be taken for a sequence
    other_env = LineWorld(m, 2)                  # Environment additionally defines __iter__
    sources = [
        [0, 0, 0], [0, 1, 2], [True, False, True], [0.0, -0.0, 0.0], [-0.0, -0.0, -0.0], ['', '', ''], ['', 'a', ' '],
        [None, None, None], [[], [], []], [(), (), ()], [{}, {}, {}], [set(), set(), set()],
        [2 ** 63 - 1, -2 ** 63, 0], [2 ** 63, 2 ** 63 + 1, 2 ** 64 - 1], [2 ** 70, 2 ** 70 + 1, -2 ** 70],
        [2 ** 53 + 1, 2 ** 53 + 2, 2 ** 53 + 3], [1e308, -1e308, 5e-324], [float('inf'), float('-inf'), float('nan')],
        [np.int8(1), np.int8(2), np.int8(3)], [np.float32(0.1), np.float32(0.2), np.float32(0.3)],
        [np.bool_(True), np.bool_(False), np.bool_(True)], [np.uint64(2 ** 64 - 1), np.uint64(0), np.uint64(1)],
        [1 + 2j, 0j, -1j], [_S('x'), _S('y'), _S('')], ['nan', 'None', 'NA'], ['<NA>', 'null', 'NaT'],
        ['2020-01-01', '1', 'True'], ['a\x00', '\x00', ''], [b'', b'\x00', b'a'],
        [(0, 0, 0), (1, 0, 0), (2, 0, 0)], [[0], [1], [2, 3]], [(1, 2, 3), (4, 5, 6), (7, 8, 9)], [(1,), (2,), (3,)],
        [{'a': 0}, {'a': 1}, {}], [{0}, {1}, {2}], [frozenset(), frozenset({1}), frozenset({2})],
        [np.array([0, 1]), np.array([2, 3]), np.array([4, 5])], [range(1), range(2), range(3)],
        [dt.date(2020, 1, 1), dt.date(1, 1, 1), dt.date(9999, 12, 31)],
        [dt.datetime(2020, 1, 1), dt.datetime(2020, 1, 2, 3, 4, 5, 678901), dt.datetime(1, 1, 1)],
        [dt.datetime(2020, 1, 1, tzinfo=tz), dt.datetime(2020, 1, 2, tzinfo=dt.timezone.utc),
         dt.datetime(2021, 1, 1, tzinfo=tz)],
        [dt.timedelta(1), dt.timedelta(microseconds=1), dt.timedelta(days=999999)],
        [decimal.Decimal('0.1'), decimal.Decimal('1e-30'), decimal.Decimal(3)],
        [_Colour.R, _Colour.G, _Colour.R], [_Kind.A, _Kind.B, _Kind.A], [int, str, float], [len, print, repr],
        agents, [Agent, Agent, Model], [other_env, other_env, m], [m, Model(), Model()],
        # heterogeneous but not touching the recorded None / huge-int inference finding
        [True, 2, 3], [True, 1.5, 2], [0, '', 0.0], [1, 'a', 2.5], [b'a', 'a', 1], [0, (), []],
    ]
    for src in sources:
        for kind in ('list', 'callable', 'lookup', 'object-array'):
            env = LineWorld(m, 3)
            with warnings.catch_warnings():
                warnings.simplefilter('ignore')
                try:
                    if kind == 'list':
                        env.add_cell_component('v', list(src))
                    elif kind == 'callable':
                        env.add_cell_component('v', lambda p, c, s=src: s[p[0]])
                    elif kind == 'lookup':
                        if any(isinstance(s, (list, tuple, np.ndarray)) for s in src):
                            continue  # tables whose entries are sequences are unspecified
                        env.add_cell_component('v', LookupGenerator(list(src)))
                    else:
                        arr = np.empty(3, dtype=object)
                        for i, s in enumerate(src):
                            arr[i] = s
                        env.add_cell_component('v', arr)
                except Exception as e:
                    bad.append(f'{kind} source {src!r}: add_cell_component raised {type(e).__name__}: {e}')
                    continue
            got = list(env.cells['v'])
            if not same_list(got, src):
                bad.append(f'LineWorld(3).add_cell_component("v", <{kind}> {src!r}) holds {got!r}')
    # every single value also through ConstantGenerator
    for src in sources:
        for v in src:
            env = GridWorld(m, 2, 2)
            env.add_cell_component('c', ConstantGenerator(v))
            if not all(same(g, v) for g in env.cells['c']) or len(env.cells['c']) != 4:
                bad.append(f'ConstantGenerator({v!r}) gives {list(env.cells["c"])!r}')
    return bad


# ---------------------------------------------------------------------------------------------------------------------
# 3. numpy array sources of many dtypes / memory layouts, each checked for independence from the caller's array
# ---------------------------------------------------------------------------------------------------------------------
@experiment('03 numpy array sources: dtypes, views, strides, read-only, byte order; caller mutation does not show')
def _():
    bad = []
    m = Model()
    n = 6
    ro = np.arange(n)
    ro.flags.writeable = False
    arrays = {
        'int64': np.arange(n), 'int8': np.arange(n, dtype=np.int8),
        'uint64': np.arange(n, dtype=np.uint64) + np.uint64(2 ** 63),
        'float16': np.linspace(0, 1, n).astype(np.float16), 'float32': np.linspace(0, 1, n).astype(np.float32),
        'longdouble': np.linspace(0, 1, n).astype(np.longdouble), 'bool': np.arange(n) % 2 == 0,
        'complex': np.arange(n) * (1 + 2j), 'unicode': np.array(['', 'a', ' ', 'nan', 'None', 'b']),
        'bytes': np.array([b'', b'a', b'b', b'c', b'd', b'e']),
        'object-mixed': np.array([0, '', None, 1.5, (1, 2), [3]], dtype=object),
        'object-int-none': np.array([1, None, 2, 3, 4, 5], dtype=object),
        'object-bigint': np.array([2 ** 70 + i for i in range(n)], dtype=object),
        'datetime64[D]': np.arange('2020-01-01', '2020-01-07', dtype='datetime64[D]'),
        'datetime64[ns]': np.arange(n).astype('datetime64[ns]'), 'timedelta64[h]': np.arange(n).astype('timedelta64[h]'),
        'strided': np.arange(2 * n)[::2], 'reversed': np.arange(n)[::-1], 'big-endian': np.arange(n).astype('>i4'),
        'read-only': ro, 'negative-zero': np.array([-0.0, 0.0, -0.0, 1, 2, 3]),
        'nan-inf': np.array([np.nan, 1, 2, np.inf, -np.inf, 0]), 'column-of-2d': np.arange(2 * n).reshape(n, 2)[:, 1],
        'subclass': np.arange(n).view(type('MyArr', (np.ndarray,), {})),
    }
    for key, arr in arrays.items():
        env = GridWorld(m, 3, 2)
        env.add_cell_component('other', list(range(n)))
        before = list(arr.copy())
        try:
            with warnings.catch_warnings():
                warnings.simplefilter('ignore')
                env.add_cell_component(key, arr)
        except Exception as e:
            bad.append(f'{key}: raised {type(e).__name__}: {e}')
            continue
        if not same_list(env.cells[key], before):
            bad.append(f'{key}: holds {list(env.cells[key])!r}, expected {before!r}')
        if arr.flags.writeable:
            arr[0] = arr[1]
            arr[-1] = arr[1]
            if not same_list(env.cells[key], before):
                bad.append(f'{key}: a later change of the caller\'s array shows through: {list(env.cells[key])!r}')
        # ... and the other way round: changing the component leaves the caller's array alone
        kept = list(arr.copy())
        env.cells.loc[2, key] = env.cells[key][3]
        if not same_list(list(arr), kept):
            bad.append(f'{key}: changing the cell component changed the caller\'s array')
        if list(env.cells['other']) != list(range(n)) or len(env.cells) != n:
            bad.append(f'{key}: other component / set of cells changed')
    return bad


@experiment('04 list sources: later changes of the caller\'s list (items, length, nested containers) do not show')
def _():
    bad = []
    m = Model()
    for src in ([0, 1, 2, 3, 4, 5], [0.5, 1, 2, 3, 4, 5], ['a', 'b', 'c', 'd', 'e', 'f'], [None, 1, 'x', (), [], {}],
                [[i] for i in range(6)], [True, False] * 3):
        env = GridWorld(m, 2, 3)
        caller = list(src)
        env.add_cell_component('v', caller)
        caller[0] = 'changed'
        caller[5] = -1
        caller.append(99)
        del caller[1]
        caller.reverse()
        if not same_list(env.cells['v'], src):
            bad.append(f'list {src!r}: component now holds {list(env.cells["v"])!r}')
        if len(env.cells) != 6:
            bad.append('set of cells changed')
    # the same list / array / generator object reused for several components and several worlds
    shared = [10, 20, 30]
    arr = np.array([1.5, 2.5, 3.5])
    look = LookupGenerator([7, 8, 9])
    const = ConstantGenerator('k')
    worlds = [LineWorld(Model(), 3) for _ in range(3)]
    for w in worlds:
        for name in ('a', 'b'):
            w.add_cell_component(name + 'l', shared)
            w.add_cell_component(name + 'n', arr)
            w.add_cell_component(name + 'k', look)
            w.add_cell_component(name + 'c', const)
    worlds[0].cells.loc[0, 'al'] = -5
    worlds[0].cells.loc[0, 'an'] = -5.0
    shared[1] = 0
    arr[1] = 0
    look.table[1] = 0  # changing the *table* after the fact must not show either
    const.value = 'z'
    for i, w in enumerate(worlds):
        for name in ('a', 'b'):
            exp_l = [10, 20, 30]
            exp_n = [1.5, 2.5, 3.5]
            if i == 0 and name == 'a':
                exp_l[0] = -5
                exp_n[0] = -5.0
            if list(w.cells[name + 'l']) != exp_l or list(w.cells[name + 'n']) != exp_n \
                    or list(w.cells[name + 'k']) != [7, 8, 9] or list(w.cells[name + 'c']) != ['k'] * 3:
                bad.append(f'world {i} component set {name}: {w.cells.to_dict("list")}')
    return bad


# ---------------------------------------------------------------------------------------------------------------------
# 5. add / remove histories against a reference model
# ---------------------------------------------------------------------------------------------------------------------
@experiment('05 random add / overwrite / remove histories of named components against a reference model')
def _():
    bad = []
    rng = random.Random(20260927)
    names = ['a', 'A', 'a ', ' a', '', 'b', 'pos2', 'index', 'columns', 'T', 'shape', 'values', 'x.y', 'ü', '0', '1',
             'None', 'nan', 'True', 'cells', 'width', 'pos_', 'a' * 300, _S('sub'), 'line\nbreak', 'tab\t', 'crlf\r\n']
    for trial in range(25):
        shape = rng.choice(REGULAR_SHAPES)
        m = Model()
        env = make(m, shape)
        pos = expected_positions(shape)
        n = len(pos)
        ref = {}
        for step in range(60):
            name = rng.choice(names)
            op = rng.random()
            before = snapshot(env)
            if op < 0.6:
                kind = rng.randrange(8)
                salt = rng.randrange(1000)
                if kind == 0:
                    want = [val(p) + salt for p in pos]
                    env.add_cell_component(name, lambda p, c, s=salt: val(p) + s)
                elif kind == 1:
                    want = [f'{p}-{salt}' for p in pos]
                    env.add_cell_component(name, list(want))
                elif kind == 2:
                    want = [(val(p) + salt) / 3 for p in pos]
                    env.add_cell_component(name, np.array(want))
                elif kind == 3:
                    want = [salt] * n
                    env.add_cell_component(name, ConstantGenerator(salt))
                elif kind == 4:
                    w, h, d = (max(s, 1) for s in shape)
                    table = [[[(x, y, z, salt) == (0, 0, 0, salt) or val((x, y, z)) * 2 + salt for z in range(d)]
                              for y in range(h)] for x in range(w)]
                    want = [table[p[0]][p[1]][p[2]] for p in pos]
                    env.add_cell_component(name, LookupGenerator(table))
                elif kind == 5:
                    want = [p[0] % 2 == 0 for p in pos]
                    env.add_cell_component(name, np.array(want))
                elif kind == 6:
                    want = [[p, salt] for p in pos]
                    env.add_cell_component(name, [list(x) for x in want])
                else:  # a generator that reads another component of the same cell
                    if not ref:
                        continue
                    other = rng.choice(sorted(ref))
                    want = [(ref[other][i], i) for i in range(n)]
                    env.add_cell_component(
                        name, lambda p, c, o=other, e=env: (c[o][discrete_grid_pos_to_id(p[0], p[1], e.width, p[2],
                                                                                         e.height)], list(c['pos']).index(p)))
                ref[str(name)] = want
            elif op < 0.9:
                if str(name) in ref:
                    env.remove_cell_component(name)
                    del ref[str(name)]
                else:
                    try:
                        env.remove_cell_component(name)
                        bad.append(f'removing unknown {name!r} was accepted')
                    except ComponentNotFoundError:
                        pass
                    if not snap_equal(snapshot(env), before):
                        bad.append(f'rejected removal of {name!r} changed the cells')
            else:  # failing additions must be without effect
                wrong = rng.choice([list(range(n + 1)), [], np.arange(n + 2), np.arange(max(n - 1, 0)) if n > 1 else
                                    np.arange(5), 'boom', 'shortlookup'])
                try:
                    if isinstance(wrong, str) and wrong == 'boom':
                        k = rng.randrange(n)
                        env.add_cell_component(name, lambda p, c, k=k: 1 / (0 if p == pos[k] else 1))
                    elif isinstance(wrong, str):
                        env.add_cell_component(name, LookupGenerator([]))
                    else:
                        env.add_cell_component(name, wrong)
                    bad.append(f'{shape}: wrong-sized source {wrong!r} accepted')
                except (ValueError, ZeroDivisionError, IndexError):
                    pass
                if not snap_equal(snapshot(env), before):
                    bad.append(f'{shape}: failed add of {name!r} changed the cells')
            # full comparison with the reference
            cols = [str(c) for c in env.cells.columns]
            if sorted(cols) != sorted(['pos'] + list(ref)):
                bad.append(f'{shape} step {step}: columns {cols} but expected {["pos"] + list(ref)}')
                break
            if list(env.cells['pos']) != pos or list(env.cells.index) != list(range(n)):
                bad.append(f'{shape} step {step}: set of cells changed')
                break
            for k, want in ref.items():
                if not same_list(env.cells[k], want):
                    bad.append(f'{shape} step {step}: component {k!r} holds {list(env.cells[k])!r}, expected {want!r}')
                    break
        if bad:
            break
    return bad[:5]


@experiment('06 removal: unknown / near-miss / non-string names rejected without effect, double removal rejected')
def _():
    bad = []
    m = Model()
    env = DiscreteWorld(m, 2, 2, 2)
    env.add_cell_component('a', lambda p, c: val(p))
    env.add_cell_component('b', [str(i) for i in range(8)])
    env.add_cell_component('c', np.linspace(0, 1, 8))
    before = snapshot(env)
    for name in ['x', 'A', 'a ', '', 'ab', None, 0, 1, 2, -1, True, 1.0, ('a',), ('a', 'b'), np.nan, b'a', 'pos ',
                 _S('zz'), frozenset(), Agent, env]:
        try:
            env.remove_cell_component(name)
            bad.append(f'remove_cell_component({name!r}) accepted')
        except ComponentNotFoundError as e:
            if e.agent is not env:
                bad.append('error does not name the environment')
        except Exception as e:
            bad.append(f'remove_cell_component({name!r}) raised {type(e).__name__} instead of ComponentNotFoundError')
        if not snap_equal(snapshot(env), before):
            bad.append(f'rejected removal of {name!r} had an effect')
    for name in (['a'], {'a'}, {'a': 1}):  # unhashable "names": rejected too (TypeError), without effect
        try:
            env.remove_cell_component(name)
            bad.append(f'remove_cell_component({name!r}) accepted')
        except (ComponentNotFoundError, TypeError):
            pass
        if not snap_equal(snapshot(env), before):
            bad.append(f'rejected removal of {name!r} had an effect')
    env.remove_cell_component(_S('b'))  # a str subclass names the same component
    if [str(c) for c in env.cells.columns] != ['pos', 'a', 'c']:
        bad.append(f'after removing b: {list(env.cells.columns)}')
    try:
        env.remove_cell_component('b')
        bad.append('second removal of b accepted')
    except ComponentNotFoundError:
        pass
    if not same_list(env.cells['a'], before[1]['a']) or not same_list(env.cells['c'], before[1]['c']):
        bad.append('removing b changed a or c')
    # the exception survives pickling (as it would when crossing a process boundary)
    try:
        env.remove_cell_component('nope')
    except ComponentNotFoundError as e:
        e2 = pickle.loads(pickle.dumps(e))
        if type(e2) is not ComponentNotFoundError or e2.component_type != 'nope' or str(e2) != str(e):
            bad.append('ComponentNotFoundError does not survive pickling')
        if not same_list(e2.agent.cells['a'], before[1]['a']):
            bad.append('pickled environment lost its cell components')
    return bad


# ---------------------------------------------------------------------------------------------------------------------
# 7. context: not model.environment, replaced environment, completed model, inside a running timestep, subclasses
# ---------------------------------------------------------------------------------------------------------------------
class _AddingSystem(System):
    def __init__(self, model, env):
        super().__init__('adder', model)
        self.env = env
        self.log = []

    def execute(self):
        t = self.model.systems.timestep
        self.env.add_cell_component(f't{t}', lambda p, c: val(p) + t)
        if t > 0:
            self.env.remove_cell_component(f't{t - 1}')
        try:
            self.env.remove_cell_component('never')
            self.log.append('accepted')
        except ComponentNotFoundError:
            pass
        if t == 3:
            self.model.complete()


class _MyWorld(GridWorld):
    __slots__ = ['extra']

    def __init__(self, model):
        super().__init__(model, 3, 2)
        self.extra = 1


class _MyLookup(LookupGenerator):
    pass


@experiment('07 worlds that are / are not / no longer model.environment, completed model, inside a timestep, subclasses')
def _():
    bad = []
    m = Model()
    detached = GridWorld(m, 3, 2, id='detached')
    attached = GridWorld(m, 3, 2)
    m.set_environment(attached)
    replaced = attached
    m.set_environment(GridWorld(m, 3, 2))
    sub = _MyWorld(m)
    pos = expected_positions((3, 2, 0))
    want = [val(p) for p in pos]
    for env in (detached, m.environment, replaced, sub):
        env.add_agent(Agent('occupant', m), 1, 1)
        env.add_cell_component('v', lambda p, c: val(p))
        env.add_cell_component('w', _MyLookup([[0, 1], [2, 3], [4, 5]]))
        env.remove_agent('occupant')
        if not same_list(env.cells['v'], want) or list(env.cells['w']) != [0, 2, 4, 1, 3, 5]:
            bad.append(f'{env.id}: {env.cells.to_dict("list")}')
    s = _AddingSystem(m, m.environment)
    m.systems.add_system(s)
    m.execute(6)
    cols = [str(c) for c in m.environment.cells.columns]
    if cols != ['pos', 'v', 'w', 't3'] or s.log:
        bad.append(f'after running: columns {cols}, log {s.log}')
    if not same_list(m.environment.cells['t3'], [v + 3 for v in want]) or not same_list(m.environment.cells['v'], want):
        bad.append('values wrong after adding/removing inside timesteps')
    # completed model: cell components still behave
    m.environment.add_cell_component('late', list(want))
    m.environment.remove_cell_component('t3')
    if not same_list(m.environment.cells['late'], want) or 't3' in m.environment.cells:
        bad.append('completed model: add/remove misbehaves')
    # none of this leaked into the other worlds
    for env in (detached, replaced, sub):
        if [str(c) for c in env.cells.columns] != ['pos', 'v', 'w']:
            bad.append(f'{env.id}: components leaked: {list(env.cells.columns)}')
    return bad


@experiment('08 a generator sees the live table: reading other components / the component it overwrites; half-way errors')
def _():
    bad = []
    m = Model()
    env = GridWorld(m, 3, 3)
    env.add_cell_component('h', lambda p, c: val(p))
    env.add_cell_component('h', lambda p, c: c['h'][discrete_grid_pos_to_id(p[0], p[1], 3)] * 2)  # overwrite from itself
    want = [val(p) * 2 for p in expected_positions((3, 3, 0))]
    if not same_list(env.cells['h'], want):
        bad.append(f'self-referencing overwrite gives {list(env.cells["h"])}')
    seen = []

    def failing(p, c):
        seen.append(p)
        if len(seen) == 5:
            raise KeyError('half way')
        return 0
    before = snapshot(env)
    for name in ('h', 'new'):
        seen.clear()
        try:
            env.add_cell_component(name, failing)
            bad.append('exception swallowed')
        except KeyError:
            pass
        if not snap_equal(snapshot(env), before):
            bad.append(f'half-completed add of {name!r} left traces: {env.cells.to_dict("list")}')
    for src in (3, None, 'abc', (1, 2, 3), range(9), {0: 1}):  # not callable / list / ndarray: rejected without effect
        try:
            env.add_cell_component('new', src)
            if not isinstance(src, (tuple, range)):
                bad.append(f'source {src!r} accepted')
        except TypeError:
            pass
        if 'new' in env.cells:
            env.remove_cell_component('new')
        if not snap_equal(snapshot(env), before):
            bad.append(f'rejected source {src!r} had an effect')
    return bad


# ---------------------------------------------------------------------------------------------------------------------
# 9. hash seed and real multiprocessing
# ---------------------------------------------------------------------------------------------------------------------
def _digest():
    m = Model(seed=1)
    out = []
    for shape in REGULAR_SHAPES:
        env = make(m, shape)
        env.add_cell_component('s', lambda p, c: f'{p}')
        env.add_cell_component('f', lambda p, c: frozenset(p))
        env.add_cell_component('d', ConstantGenerator({'k': 'v'}))
        env.add_cell_component('n', np.arange(len(env.cells)) * 1.5)
        env.remove_cell_component('f')
        out.append(repr(env.cells.to_dict('list')))
    return hashlib.sha256('\n'.join(out).encode()).hexdigest()


class _CellCollector(Collector):
    def collect(self):
        env = self.model.environment
        self.records.append({str(c): list(env.cells[c]) for c in env.cells.columns})
        self.model.complete()


class CellModel(Model):
    def __init__(self, w, h, bad_remove=False):
        super().__init__(seed=w * 10 + h)
        self.environment = GridWorld(self, w, h)
        self.environment.add_cell_component('v', lambda p, c: val(p))
        self.environment.add_cell_component('l', [str(i) for i in range(w * h)])
        self.environment.add_cell_component('a', np.arange(w * h) / 4)
        self.environment.add_cell_component('gone', ConstantGenerator(0))
        self.environment.remove_cell_component('gone')
        if bad_remove:
            self.environment.remove_cell_component('gone')
        self.systems.add_system(_CellCollector('cells', self))


def _mp_child():
    from ECAgent.Batching import batch_run
    res = batch_run(CellModel, {'w': [1, 2, 3], 'h': [1, 2]}, collectors='cells', processes=3)
    one = batch_run(CellModel, {'w': [1, 2, 3], 'h': [1, 2]}, collectors='cells', processes=1)
    key = lambda r: repr(r)
    ok = sorted(res, key=key) == sorted(one, key=key) and len(res) == 6
    for rec in one:
        cells = rec[0]
        pos = cells['pos']
        ok = ok and cells['v'] == [val(p) for p in pos] and cells['l'] == [str(i) for i in range(len(pos))] \
            and cells['a'] == [i / 4 for i in range(len(pos))] and 'gone' not in cells
    try:
        batch_run(CellModel, {'w': [2, 3], 'h': [2], 'bad_remove': True}, collectors='cells', processes=2)
        err = 'no error'
    except ComponentNotFoundError as e:
        err = 'ok' if e.component_type == 'gone' else f'wrong payload {e.component_type!r}'
    except Exception as e:
        err = f'{type(e).__name__}: {e}'
    print('MP-RESULT', ok, err)


@experiment('09 hash-seed independence and real multiprocessing (batch_run, processes=3) incl. the rejection crossing')
def _():
    bad = []
    env = dict(os.environ, PYTHONPATH=os.path.dirname(os.path.abspath(__file__)))
    digests = set()
    for seed in ('0', '1', '4242'):
        env['PYTHONHASHSEED'] = seed
        p = subprocess.run([sys.executable, os.path.abspath(__file__), '--digest'], env=env, capture_output=True,
                           text=True, timeout=120)
        digests.add(p.stdout.strip())
    if len(digests) != 1 or '' in digests:
        bad.append(f'cell tables depend on the hash seed: {digests}')
    try:
        p = subprocess.run([sys.executable, os.path.abspath(__file__), '--mp'], env=env, capture_output=True, text=True,
                           timeout=180)
        line = [ln for ln in p.stdout.splitlines() if ln.startswith('MP-RESULT')]
        if not line or line[0] != 'MP-RESULT True ok':
            bad.append(f'multiprocessing run: {line or p.stderr[-400:]}')
    except subprocess.TimeoutExpired:
        bad.append('multiprocessing run timed out')
    return bad


# ---------------------------------------------------------------------------------------------------------------------
# observations that are NOT counted (outside the stated scope, unspecified, or the already recorded finding)
# ---------------------------------------------------------------------------------------------------------------------
def observations():
    m = Model()
    # (a) zero extent in front of a non-zero extent
    rows = []
    for shape in GAP_SHAPES:
        env = DiscreteWorld(m, *shape)
        pos = list(env.cells['pos'])
        ids = [discrete_grid_pos_to_id(p[0], p[1], env.width, p[2], env.height) for p in pos]
        axes = [i for i in range(3) if shape[i] > 0]

        def build(prefix, left):
            if not left:
                p = [0, 0, 0]
                for a, v in prefix:
                    p[a] = v
                return val(p)
            return [build(prefix + [(left[0], i)], left[1:]) for i in range(shape[left[0]])]
        env.add_cell_component('look', LookupGenerator(build([], axes)))
        env.add_cell_component('list', [val(p) for p in pos])
        rows.append(f'DiscreteWorld(m, {shape[0]}, {shape[1]}, {shape[2]}): cells {pos}; documented ids '
                    f'discrete_grid_pos_to_id(x, y, width, z, height) = {ids}; LookupGenerator(table with one axis per '
                    f'non-zero extent) -> {list(env.cells["look"])} (wanted {[val(p) for p in pos]}); list source by '
                    f'row number -> {"as expected" if list(env.cells["list"]) == [val(p) for p in pos] else "WRONG"}')
    note('A. worlds with a zero extent in front of a non-zero one (0,h,0) (0,0,d) (w,0,d) (0,h,d) - edge of scope',
         'the documented id formula is not injective there and LookupGenerator only skips *trailing* unused axes, so a '
         'table with one axis per used axis is indexed wrongly (silently, cells are no longer distinguishable). List / '
         'array / callable sources and 3-axis tables (shape max(w,1) x max(h,1) x max(d,1)) are fine.\n             '
         + '\n             '.join(rows))

    # (b) lookup tables that are not list / tuple / ndarray
    env = LineWorld(m, 3)
    env.add_cell_component('r', LookupGenerator(range(10, 13)))
    env.add_cell_component('d', LookupGenerator({0: 'a', 1: 'b', 2: 'c'}))
    note('B. LookupGenerator tables that are neither list, tuple nor ndarray (range, dict, array.array, Series ...)',
         f'are not indexed at all - every cell receives the whole table: LineWorld(3) + LookupGenerator(range(10, 13)) '
         f'-> {list(env.cells["r"])}. The accepted table types are not specified anywhere; direct tuple/range sources '
         f'were declared out of scope, so this is not counted.')

    # (c) same root cause as the recorded inference finding, via the ndarray path
    env = LineWorld(m, 3)
    env.add_cell_component('o', np.array(['a', None, 'b'], dtype=object))
    note('C. (recorded finding, other entry point) object ndarray of strings and None',
         f'np.array(["a", None, "b"], dtype=object) -> {list(env.cells["o"])!r} dtype {env.cells["o"].dtype}: pandas '
         f're-infers "str" and turns None into nan - same pandas dtype inference as the recorded list finding.')

    # (d) masked arrays
    env = LineWorld(m, 3)
    env.add_cell_component('m', np.ma.masked_array([1, 2, 3], mask=[0, 1, 0]))
    note('D. numpy masked arrays (exotic ndarray subclass)',
         f'np.copy() drops the mask: masked_array([1, --, 3]) -> {list(env.cells["m"])}. Not a plain numpy array; not '
         f'counted.')


if __name__ == '__main__':
    if '--digest' in sys.argv:
        print(_digest())
        sys.exit(0)
    if '--mp' in sys.argv:
        _mp_child()
        sys.exit(0)
    run_experiments()
    print()
    observations()
    print()
    print(f'{len(VIOLATIONS)} violation(s) inside the stated scope, {len(NOTES)} uncounted observation(s)')
    sys.exit(1 if VIOLATIONS else 0)
