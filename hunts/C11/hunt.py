"""Bug hunt for the property

    "Cell components hold each cell's own value and are independent of sources"

Run with:  cd /tmp/wt-C11-h && PYTHONPATH=/tmp/wt-C11-h /venv/bin/python hunt.py

Only the public API of ECAgent is used.  Every experiment prints one line:
    OK          the property held for that angle
    VIOLATION   a genuine violation inside the stated scope (counted, exit code 1)
    NOTE        something odd that is outside the stated scope / unspecified (not counted)
"""
import copy
import datetime
import hashlib
import itertools
import multiprocessing
import os
import pickle
import random
import subprocess
import sys
import warnings

import numpy as np
import pandas

from ECAgent.Core import Model, System, ComponentNotFoundError
from ECAgent.Environments import (DiscreteWorld, LineWorld, GridWorld, ConstantGenerator, LookupGenerator,
                                  discrete_grid_pos_to_id)

warnings.simplefilter('ignore')

VIOLATIONS = []
NOTES = []


def report(kind, name, text=''):
    print(f'[{kind:9}] {name}' + (f'\n            {text}' if text else ''))
    if kind == 'VIOLATION':
        VIOLATIONS.append(name)
    elif kind == 'NOTE':
        NOTES.append(name)


# ---------------------------------------------------------------------------------------------------------------------
# helpers
# ---------------------------------------------------------------------------------------------------------------------
def py(v):
    """numpy scalar -> python scalar (so that int/float comparison is exact, as in pure python)."""
    return v.item() if isinstance(v, np.generic) else v


def same(held, given):
    """'exactly the value': identical object, or equal *as python values* (1 == 1.0 and True == 1 are accepted, i.e.
    we are lenient about the numeric type, strict about the numeric value); NaN matches NaN."""
    held, given = py(held), py(given)
    if held is given:
        return True
    if given is None or held is None:
        return False
    try:
        if isinstance(given, float) and given != given:
            return isinstance(held, float) and held != held
        if isinstance(given, np.ndarray) or isinstance(held, np.ndarray):
            return type(held) is type(given) and held.shape == given.shape and bool(np.all(held == given))
        return bool(held == given) and bool(given == held)
    except Exception:
        return False


def column(env, name):
    col = env.cells[name]
    return [col[i] for i in range(len(col))]


def mismatches(env, name, expected):
    got = column(env, name)
    if len(got) != len(expected):
        return [('length', len(expected), len(got))]
    return [(i, expected[i], got[i]) for i in range(len(expected)) if not same(got[i], expected[i])]


def worlds():
    """(label, factory) for every grid shape in the scope."""
    return [
        ('LineWorld(1)', lambda: LineWorld(Model(), 1)),
        ('LineWorld(5)', lambda: LineWorld(Model(), 5)),
        ('GridWorld(1,1)', lambda: GridWorld(Model(), 1, 1)),
        ('GridWorld(3,2)', lambda: GridWorld(Model(), 3, 2)),
        ('GridWorld(1,4)', lambda: GridWorld(Model(), 1, 4)),
        ('GridWorld(4,1)', lambda: GridWorld(Model(), 4, 1)),
        ('DiscreteWorld(2,3,4)', lambda: DiscreteWorld(Model(), 2, 3, 4)),
        ('DiscreteWorld(3,2,1)', lambda: DiscreteWorld(Model(), 3, 2, 1)),
        ('DiscreteWorld(1,1,1)', lambda: DiscreteWorld(Model(), 1, 1, 1)),
        ('DiscreteWorld(0,0,0)', lambda: DiscreteWorld(Model(), 0, 0, 0)),
        ('DiscreteWorld(3,0,0)', lambda: DiscreteWorld(Model(), 3, 0, 0)),
        ('DiscreteWorld(3,2,0)', lambda: DiscreteWorld(Model(), 3, 2, 0)),
        ('DiscreteWorld(0,3,0)', lambda: DiscreteWorld(Model(), 0, 3, 0)),
        ('DiscreteWorld(2,0,3)', lambda: DiscreteWorld(Model(), 2, 0, 3)),
        ('DiscreteWorld(0,0,3)', lambda: DiscreteWorld(Model(), 0, 0, 3)),
    ]


def positions(env):
    w, h, d = max(env.width, 1), max(env.height, 1), max(env.depth, 1)
    return [(x, y, z) for z in range(d) for y in range(h) for x in range(w)]


# ---------------------------------------------------------------------------------------------------------------------
# E1  callable / list / ndarray / constant on every shape, distinguishable values of several python types
# ---------------------------------------------------------------------------------------------------------------------
def e1_all_shapes_all_sources():
    problems = []
    value_makers = {
        'int': lambda i, p: 1000 + i,
        'negint': lambda i, p: -i,
        'float': lambda i, p: i + 0.25,
        'str': lambda i, p: f'c{i}',
        'tuple(pos)': lambda i, p: p,
        'list': lambda i, p: [i, list(p)],
        'dict': lambda i, p: {'i': i},
        'bool': lambda i, p: i % 2 == 0,
        'bytes': lambda i, p: bytes([i + 1]),   # (numpy 'S' arrays strip trailing NULs themselves)
        'complex': lambda i, p: complex(i, -i),
        'huge': lambda i, p: 2 ** 70 + i,
        'np.int8': lambda i, p: np.int8(i),
        'np.float32': lambda i, p: np.float32(i) / 4,
        'np vector': lambda i, p: np.array(p),
        'empties': lambda i, p: ['', 0, (), [], {}, 0.0, False][i % 7] if i < 7 else i,
        'datetime': lambda i, p: datetime.datetime(2000, 1, 1) + datetime.timedelta(microseconds=i),
    }
    for (wl, mk), (vl, fv) in itertools.product(worlds(), value_makers.items()):
        env = mk()
        pos = positions(env)
        if column(env, 'pos') != pos:
            problems.append(f'{wl}: cells["pos"] is not x-fastest order')
            continue
        expected = [fv(i, p) for i, p in enumerate(pos)]
        lookup = dict(zip(pos, expected))
        seen = []

        def gen(p, cells, lookup=lookup, seen=seen, env=env):
            seen.append(p)
            if cells is not env.cells:
                problems.append(f'{wl}: generator did not receive env.cells')
            return lookup[p]

        env.add_cell_component('callable', gen)
        env.add_cell_component('list', list(expected))
        if vl not in ('tuple(pos)', 'list', 'dict', 'np vector', 'empties'):
            arr = np.array(expected)
            if arr.ndim == 1 and len(arr) == len(expected):
                env.add_cell_component('ndarray', arr)
        oarr = np.empty(len(expected), dtype=object)
        for i, v in enumerate(expected):
            oarr[i] = v
        env.add_cell_component('objarr', oarr)
        if seen != pos or not all(type(c) is int for p in seen for c in p) or not all(type(p) is tuple for p in seen):
            problems.append(f'{wl}/{vl}: generator called with {seen[:3]}...')
        for name in env.cells.columns:
            if name == 'pos':
                continue
            bad = mismatches(env, name, expected)
            if bad:
                problems.append(f'{wl}/{vl}/{name}: {bad[:2]}')
        if column(env, 'pos') != pos or len(env.cells) != len(pos):
            problems.append(f'{wl}/{vl}: the set of cells changed')
        # constant generator
        for const in (0, '', None, (), [], 0.0, False, -0.0, 2 ** 53 + 1, 2 ** 70, float('nan'), 'x', (1, 2), [1], {}):
            env.add_cell_component('const', ConstantGenerator(const))
            bad = mismatches(env, 'const', [const] * len(pos))
            if bad:
                problems.append(f'{wl}/const {const!r}: {bad[:2]}')
            if isinstance(const, float) and const == 0 and str(py(env.cells["const"][0])) != str(const):
                problems.append(f'{wl}/const {const!r}: sign of zero lost')
    if problems:
        report('VIOLATION', 'E1 homogeneous values, all shapes x all source kinds', '; '.join(problems[:6]))
    else:
        report('OK', 'E1 homogeneous values of 16 python/numpy types, 15 grid shapes, callable/list/ndarray/object '
                     'ndarray/ConstantGenerator (incl. falsy, -0.0, NaN, huge ints)')


# ---------------------------------------------------------------------------------------------------------------------
# E2  *** heterogeneous values: pandas type inference rewrites some cells' values ***
# ---------------------------------------------------------------------------------------------------------------------
def e2_value_coercion():
    B = 2 ** 53 + 1
    S = datetime.datetime(2020, 1, 1)
    cases = {
        'None next to ints': [None, 1, 2],
        'None next to floats': [0.5, None],
        'None next to strings': ['a', None, 'c'],
        'None next to datetimes': [S, None],
        'None next to timedeltas': [datetime.timedelta(1), None],
        'int > 2**53 next to a float': [B, 0.5],
        'negative int < -2**53 next to a float': [-B, 1.5],
        'int64 max next to a float': [2 ** 63 - 1, 0.0],
        'int > 2**53 next to NaN': [B, float('nan')],
        'int > 2**53 next to a complex': [1j, B],
        'np.int64 > 2**53 next to a float': [np.int64(B), 0.25],
        'np.longdouble scalars (routed through float64)': [np.longdouble('0.1'), np.longdouble(1) / 3],
    }
    fine = {
        'bool next to int': [True, 2], 'bool next to float': [True, 0.5], 'bool next to None': [True, None],
        'int > int64 next to float': [2 ** 70 + 1, 0.5], 'uint64 next to negative': [2 ** 63, -1],
        'str next to int': ['a', 1], 'small int next to float': [3, 0.5], 'all None': [None, None],
        'pandas.NA next to int': [pandas.NA, 1], 'Decimal-ish objects': [object, len],
        '-0.0 next to int': [-0.0, 1],
    }
    found = []
    for label, values in cases.items():
        n = len(values)
        sources = {
            'list': lambda v=values: list(v),
            'callable': lambda v=values: (lambda pos, cells: v[pos[0]]),
            'LookupGenerator': lambda v=values: LookupGenerator(list(v)),
        }
        if any(v is None for v in values) and not all(isinstance(v, (int, float, type(None))) for v in values):
            sources['object ndarray'] = lambda v=values: np.array(v, dtype=object)
        broken = []
        for sl, mk in sources.items():
            env = LineWorld(Model(), n)
            env.add_cell_component('c', mk())
            bad = mismatches(env, 'c', values)
            if bad:
                broken.append(f'{sl}: cell {bad[0][0]} should hold {bad[0][1]!r} but holds {bad[0][2]!r}')
        if broken:
            found.append(f'{label} {values!r} -> ' + ' | '.join(broken))
    unexpected = []
    for label, values in fine.items():
        for src in (list(values), (lambda pos, cells, v=values: v[pos[0]])):
            env = LineWorld(Model(), len(values))
            env.add_cell_component('c', src)
            bad = mismatches(env, 'c', values)
            if bad:
                unexpected.append(f'{label}: {bad}')
    if found or unexpected:
        report('VIOLATION', 'E2 heterogeneous values are rewritten by dtype inference (clause: "holds exactly the value '
                            'its source assigns to that cell")',
               '\n            '.join(found + unexpected) +
               '\n            minimal repro: env = LineWorld(Model(), 2); env.add_cell_component("c", [2**53+1, 0.5]); '
               'env.cells["c"][0] -> 9007199254740992.0'
               '\n            minimal repro: env = LineWorld(Model(), 2); env.add_cell_component("c", lambda pos, cells: '
               'None if pos[0] == 0 else 1); env.cells["c"][0] -> nan')
    else:
        report('OK', 'E2 heterogeneous values (None / big ints next to floats ...)')


# ---------------------------------------------------------------------------------------------------------------------
# E3  lookup generator: tables of the world's dimensionality (list / tuple / ndarray / mixed nesting)
# ---------------------------------------------------------------------------------------------------------------------
def nested(shape, f, kind):
    """table[x][y][z] == f((x, y, z)) with as many levels as len(shape)."""
    def build(prefix, dims):
        if not dims:
            full = tuple(prefix) + (0,) * (3 - len(prefix))
            return f(full)
        seq = [build(prefix + [i], dims[1:]) for i in range(dims[0])]
        return tuple(seq) if kind == 'tuple' or (kind == 'mixed' and len(dims) % 2) else seq
    t = build([], list(shape))
    return np.array(t) if kind == 'ndarray' else t


def e3_lookup_scalar_entries():
    problems = []
    shapes = [
        ('LineWorld(4)', lambda: LineWorld(Model(), 4), (4,)),
        ('LineWorld(1)', lambda: LineWorld(Model(), 1), (1,)),
        ('DiscreteWorld(4,0,0)', lambda: DiscreteWorld(Model(), 4, 0, 0), (4,)),
        ('GridWorld(3,2)', lambda: GridWorld(Model(), 3, 2), (3, 2)),
        ('GridWorld(2,3)', lambda: GridWorld(Model(), 2, 3), (2, 3)),
        ('GridWorld(1,3)', lambda: GridWorld(Model(), 1, 3), (1, 3)),
        ('GridWorld(3,1)', lambda: GridWorld(Model(), 3, 1), (3, 1)),
        ('GridWorld(1,1)', lambda: GridWorld(Model(), 1, 1), (1, 1)),
        ('DiscreteWorld(3,2,0)', lambda: DiscreteWorld(Model(), 3, 2, 0), (3, 2)),
        ('DiscreteWorld(2,3,4)', lambda: DiscreteWorld(Model(), 2, 3, 4), (2, 3, 4)),
        ('DiscreteWorld(4,3,2)', lambda: DiscreteWorld(Model(), 4, 3, 2), (4, 3, 2)),
        ('DiscreteWorld(1,1,1)', lambda: DiscreteWorld(Model(), 1, 1, 1), (1, 1, 1)),
        ('DiscreteWorld(2,1,3)', lambda: DiscreteWorld(Model(), 2, 1, 3), (2, 1, 3)),
        ('DiscreteWorld(0,3,0) table 1x3', lambda: DiscreteWorld(Model(), 0, 3, 0), (1, 3)),
        ('DiscreteWorld(2,0,3) table 2x1x3', lambda: DiscreteWorld(Model(), 2, 0, 3), (2, 1, 3)),
    ]
    entry = {
        'int': lambda p: p[0] + 10 * p[1] + 100 * p[2],
        'float': lambda p: p[0] + 10 * p[1] + 100 * p[2] + 0.5,
        'str': lambda p: 'v%d%d%d' % p,
        'falsy-ish': lambda p: [0, '', 0.0, False][sum(p) % 4] if sum(p) < 4 else sum(p) * 1000 + p[0],
    }
    for (wl, mk, shape), (el, f), kind in itertools.product(shapes, entry.items(), ('list', 'tuple', 'mixed', 'ndarray')):
        if kind == 'ndarray' and el == 'falsy-ish':
            continue
        env = mk()
        table = nested(shape, f, kind)
        expected = [f(p) for p in positions(env)]
        gen = LookupGenerator(table)
        env.add_cell_component('lk', gen)
        bad = mismatches(env, 'lk', expected)
        if bad:
            problems.append(f'{wl}/{el}/{kind}: {bad[:2]}')
        # the table is not consumed / changed and later changes to it do not show through
        if kind == 'list':
            t = table
            while isinstance(t, list):
                t[0], t = ('changed' if not isinstance(t[0], list) else t[0]), t[0]
            if mismatches(env, 'lk', expected):
                problems.append(f'{wl}/{el}: change to the table showed through')
        if kind == 'ndarray':
            table[...] = table.flat[0]
            if mismatches(env, 'lk', expected):
                problems.append(f'{wl}/{el}: change to the ndarray table showed through')
    # same generator object reused in two worlds and under two names
    gen = LookupGenerator([[1, 2], [3, 4], [5, 6]])
    a, b = GridWorld(Model(), 3, 2), GridWorld(Model(), 3, 2)
    a.add_cell_component('p', gen), b.add_cell_component('p', gen), a.add_cell_component('q', gen)
    for env, n in ((a, 'p'), (b, 'p'), (a, 'q')):
        if column(env, n) != [1, 3, 5, 2, 4, 6]:
            problems.append('reused LookupGenerator: ' + repr(column(env, n)))
    if problems:
        report('VIOLATION', 'E3 LookupGenerator with scalar/str entries', '; '.join(problems[:6]))
    else:
        report('OK', 'E3 LookupGenerator, tables of the world\'s dimensionality with int/float/str/falsy entries as nested '
                     'lists, tuples, mixed nesting and ndarrays, 15 shapes incl. degenerate; table reuse; table changes')


def e4_lookup_container_entries():
    """A table of the world's dimensionality whose *entries* are tuples / lists / vectors (e.g. an RGB image as a list of
    rows of (r, g, b) tuples, or the natural 'distinguishable value' (x, y))."""
    found = []
    # 1-D table of tuples on a LineWorld
    env = LineWorld(Model(), 3)
    table = [('a', 0), ('b', 1), ('c', 2)]
    env.add_cell_component('lk', LookupGenerator(table))
    bad = mismatches(env, 'lk', table)
    if bad:
        found.append(f'LineWorld(3), table {table!r}: cell 0 should hold {table[0]!r} but holds {column(env, "lk")[0]!r}')
    # 2-D table of tuples on a GridWorld
    env = GridWorld(Model(), 2, 2)
    table = [[(255, 0, 0), (0, 255, 0)], [(0, 0, 255), (9, 9, 9)]]
    env.add_cell_component('lk', LookupGenerator(table))
    expected = [table[x][y] for (x, y, z) in positions(env)]
    bad = mismatches(env, 'lk', expected)
    if bad:
        found.append(f'GridWorld(2,2), 2-D table of RGB tuples: cell 0 should hold {expected[0]!r} but holds '
                     f'{column(env, "lk")[0]!r}')
    # 1-D table of lists / vectors
    env = LineWorld(Model(), 2)
    table = [[7, 8], [9, 10]]
    env.add_cell_component('lk', LookupGenerator(table))
    if mismatches(env, 'lk', table):
        found.append(f'LineWorld(2), 1-D table of lists {table!r}: holds {[py(v) for v in column(env, "lk")]!r}')
    # control: a full 3-D world with tuple entries is fine (all three coordinates are consumed first)
    env = DiscreteWorld(Model(), 2, 2, 2)
    table = [[[(x, y, z) for z in range(2)] for y in range(2)] for x in range(2)]
    env.add_cell_component('lk', LookupGenerator(table))
    ctrl = mismatches(env, 'lk', positions(env))
    if ctrl:
        found.append(f'3-D control broken: {ctrl[:2]}')
    # control: the same values supplied through a callable / list are held exactly
    env = LineWorld(Model(), 3)
    t1 = [('a', 0), ('b', 1), ('c', 2)]
    env.add_cell_component('cb', lambda pos, cells: t1[pos[0]])
    env.add_cell_component('ls', list(t1))
    if mismatches(env, 'cb', t1) or mismatches(env, 'ls', t1):
        found.append('control (callable/list with tuple values) broken')
    if found:
        report('VIOLATION', 'E4 LookupGenerator indexes INTO tuple/list/array entries of a 1-D or 2-D table (clause: "for the '
                            'bundled lookup generator, the table entry at the cell\'s coordinates")',
               '\n            '.join(found) +
               '\n            minimal repro: env = LineWorld(Model(), 2); env.add_cell_component("lk", '
               'LookupGenerator([("a", 0), ("b", 1)])); env.cells["lk"][0] -> "a" (expected ("a", 0))')
    else:
        report('OK', 'E4 LookupGenerator with tuple/list entries')


# ---------------------------------------------------------------------------------------------------------------------
# E5  independence from the caller's list / array, in both directions, and between components / worlds
# ---------------------------------------------------------------------------------------------------------------------
def e5_independence():
    problems = []
    for mk_src in (lambda: [10, 20, 30, 40, 50, 60],
                   lambda: np.array([10, 20, 30, 40, 50, 60]),
                   lambda: np.array([10., 20, 30, 40, 50, 60]),
                   lambda: np.array(['a', 'b', 'c', 'd', 'e', 'f']),
                   lambda: np.array(['a', 'b', 'c', 'd', 'e', 'f'], dtype=object),
                   lambda: np.array([10, 20, 30, 40, 50, 60], dtype='>i4'),
                   lambda: np.arange(12)[::2] * 10 + 10,          # non-contiguous view
                   lambda: np.array([60, 50, 40, 30, 20, 10])[::-1],  # negative stride
                   lambda: np.array([[10, 20, 30], [40, 50, 60]]).reshape(-1),
                   lambda: np.array([True, False, True, True, False, False]),
                   lambda: np.array([10, 20, 30, 40, 50, 60], dtype=np.uint8),
                   lambda: np.array([1, 2, 3, 4, 5, 6], dtype='datetime64[s]'),
                   lambda: [[1], [2], [3], [4], [5], [6]]):
        src = mk_src()
        snapshot = [copy.deepcopy(py(v)) for v in src]
        a, b = GridWorld(Model(), 3, 2), GridWorld(Model(), 2, 3)
        a.add_cell_component('one', src)
        a.add_cell_component('two', src)
        b.add_cell_component('one', src)
        # caller changes its container afterwards
        if isinstance(src, list):
            src[0] = 'changed'
            src.reverse()
            src.append(7)
            del src[1]
        else:
            try:
                src[0] = src[-1]
                src[:] = src[::-1].copy()
                src.sort()
            except Exception:
                pass
        for env, n in ((a, 'one'), (a, 'two'), (b, 'one')):
            bad = mismatches(env, n, snapshot)
            if bad:
                problems.append(f'{type(src).__name__}/{getattr(src, "dtype", "")}: change showed through: {bad[:2]}')
        # and the other way round: writing into a component does not reach the source / the sibling component
        src2 = mk_src()
        snap2 = [copy.deepcopy(py(v)) for v in src2]
        c = GridWorld(Model(), 3, 2)
        c.add_cell_component('one', src2)
        c.add_cell_component('two', src2)
        try:
            c.cells.loc[0, 'one'] = c.cells['one'][5]
        except Exception:
            pass
        if [copy.deepcopy(py(v)) for v in src2] != snap2 and not isinstance(src2, list):
            problems.append(f'{src2.dtype}: writing into the component changed the caller array')
        if isinstance(src2, list) and src2 != snap2:
            problems.append('writing into the component changed the caller list')
        if mismatches(c, 'two', snap2):
            problems.append('writing into one component changed its sibling built from the same source')
    # read-only ndarray source
    ro = np.array([1, 2, 3])
    ro.setflags(write=False)
    env = LineWorld(Model(), 3)
    env.add_cell_component('ro', ro)
    if column(env, 'ro') != [1, 2, 3]:
        problems.append('read-only source')
    if problems:
        report('VIOLATION', 'E5 independence from caller list/array', '; '.join(problems[:6]))
    else:
        report('OK', 'E5 later changes to the caller\'s list / ndarray (13 dtypes and memory layouts, same source used for '
                     'two components and two worlds) do not show through; writes into a component do not reach the '
                     'source or its sibling')


# ---------------------------------------------------------------------------------------------------------------------
# E6  histories of adding/removing/overwriting named components versus a dict reference model
# ---------------------------------------------------------------------------------------------------------------------
class StrSub(str):
    pass


def e6_histories():
    problems = []
    names = ['a', 'b', 'c', '', ' ', 'A', 'pos2', 'POS', 'cells', 'index', 'columns', 'T', 'shape', 'values', 'name',
             'id', 'x', 'y', 'z', '0', 'None', 'a\r\nb', 'é', 'é', StrSub('sub'), 'sub2', 'width']
    for seed in range(40):
        rng = random.Random(seed)
        wl, mk = rng.choice(worlds())
        env = mk()
        pos = positions(env)
        n = len(pos)
        ref = {}
        order = ['pos']
        for step in range(30):
            op = rng.random()
            name = rng.choice(names)
            if op < 0.6:
                kind = rng.choice(['callable', 'list', 'ndarray', 'const', 'str', 'tuple'])
                base = rng.randrange(10 ** 6)
                if kind == 'callable':
                    vals = [base + i for i in range(n)]
                    look = dict(zip(pos, vals))
                    env.add_cell_component(name, lambda p, cells, look=look: look[p])
                elif kind == 'list':
                    vals = [base + i + 0.5 for i in range(n)]
                    env.add_cell_component(name, list(vals))
                elif kind == 'ndarray':
                    vals = [base - i for i in range(n)]
                    env.add_cell_component(name, np.array(vals))
                elif kind == 'const':
                    vals = [base] * n
                    env.add_cell_component(name, ConstantGenerator(base))
                elif kind == 'str':
                    vals = [f'{base}:{i}' for i in range(n)]
                    env.add_cell_component(name, list(vals))
                else:
                    vals = [(base, p) for p in pos]
                    env.add_cell_component(name, lambda p, cells, base=base: (base, p))
                if name not in ref:
                    order.append(name)
                ref[name] = vals
            else:
                if name in ref:
                    env.remove_cell_component(name)
                    del ref[name]
                    order.remove(name)
                else:
                    before = env.cells.copy(deep=True)
                    try:
                        env.remove_cell_component(name)
                        problems.append(f'seed {seed}: removing unknown {name!r} was not rejected')
                    except ComponentNotFoundError:
                        pass
                    if not before.equals(env.cells):
                        problems.append(f'seed {seed}: rejected removal changed the cells')
            # full check after every step
            if list(env.cells.columns) != order:
                problems.append(f'seed {seed} step {step}: components {list(env.cells.columns)} != {order}')
                break
            if column(env, 'pos') != pos or len(env.cells) != n or list(env.cells.index) != list(range(n)):
                problems.append(f'seed {seed} step {step}: set of cells changed')
                break
            for k, v in ref.items():
                bad = mismatches(env, k, v)
                if bad:
                    problems.append(f'seed {seed} step {step} {wl}: component {k!r} changed: {bad[:2]}')
            if problems:
                break
    if problems:
        report('VIOLATION', 'E6 add/remove/overwrite histories', '; '.join(problems[:6]))
    else:
        report('OK', 'E6 40 random histories x 30 steps (add / overwrite with another dtype / remove / remove unknown) over '
                     '27 names (empty, whitespace, DataFrame attribute names, CRLF, NFC/NFD, str subclass) on all shapes, '
                     'checked against a dict model after every step')


# ---------------------------------------------------------------------------------------------------------------------
# E7  error paths must not half-complete
# ---------------------------------------------------------------------------------------------------------------------
def e7_error_paths():
    problems = []
    env = GridWorld(Model(), 3, 2)
    env.add_cell_component('keep', [1, 2, 3, 4, 5, 6])
    env.add_cell_component('over', [6, 5, 4, 3, 2, 1])
    before = env.cells.copy(deep=True)

    calls = []

    def failing(pos, cells):
        calls.append(pos)
        if len(calls) == 4:
            raise RuntimeError('boom')
        return 1

    attempts = {
        'generator raising half way (new name)': lambda: env.add_cell_component('new', failing),
        'generator raising half way (existing name)': lambda: env.add_cell_component('over', failing),
        'short list': lambda: env.add_cell_component('new', [1, 2, 3]),
        'short list over existing': lambda: env.add_cell_component('over', [1, 2, 3]),
        'long list': lambda: env.add_cell_component('new', list(range(7))),
        'empty list': lambda: env.add_cell_component('new', []),
        'length-1 list': lambda: env.add_cell_component('new', [1]),
        'short ndarray': lambda: env.add_cell_component('new', np.arange(5)),
        'length-1 ndarray': lambda: env.add_cell_component('new', np.array([1])),
        '2-D ndarray (3,2)': lambda: env.add_cell_component('new', np.arange(6).reshape(3, 2)),
        'not callable (tuple)': lambda: env.add_cell_component('new', (1, 2, 3, 4, 5, 6)),
        'not callable (None)': lambda: env.add_cell_component('new', None),
        'one-argument callable': lambda: env.add_cell_component('new', lambda pos: 1),
        'remove unknown': lambda: env.remove_cell_component('nope'),
        'remove unknown (empty name)': lambda: env.remove_cell_component(''),
        'remove unknown (None)': lambda: env.remove_cell_component(None),
    }
    for label, f in attempts.items():
        calls.clear()
        try:
            f()
            problems.append(f'{label}: accepted')
        except Exception as e:
            if label.startswith('remove') and not isinstance(e, ComponentNotFoundError):
                problems.append(f'{label}: raised {type(e).__name__} instead of ComponentNotFoundError')
        if not before.equals(env.cells) or list(before.columns) != list(env.cells.columns):
            problems.append(f'{label}: cells changed by a rejected operation')
            env.cells = before.copy(deep=True)
    # the rejection survives pickling (e.g. when raised in a batch worker)
    try:
        env.remove_cell_component('nope')
    except ComponentNotFoundError as e:
        e2 = pickle.loads(pickle.dumps(e))
        if str(e2) != str(e):
            problems.append('ComponentNotFoundError does not round-trip through pickle')
    # removing twice
    env.remove_cell_component('over')
    try:
        env.remove_cell_component('over')
        problems.append('second removal accepted')
    except ComponentNotFoundError:
        pass
    if problems:
        report('VIOLATION', 'E7 error paths', '; '.join(problems[:6]))
    else:
        report('OK', 'E7 16 rejected operations (generator raising half-way, wrong sizes, non-callables, unknown removals, '
                     'double removal) leave all components and the cell set untouched; the rejection pickles')


# ---------------------------------------------------------------------------------------------------------------------
# E8  several worlds / models alive at once, env that is not model.environment, replaced env, completed model,
#     operations issued from inside a running timestep, subclass of the package's classes, deepcopy/pickle
# ---------------------------------------------------------------------------------------------------------------------
class MyGrid(GridWorld):
    def __init__(self, model):
        super().__init__(model, 3, 2, id='mine')
        self.add_cell_component('own', lambda pos, cells: pos[0] * 10 + pos[1])


class Tinker(System):
    def __init__(self, model, env):
        super().__init__('tinker', model)
        self.env = env
        self.log = []

    def execute(self):
        t = self.model.systems.timestep
        self.env.add_cell_component(f't{t}', lambda pos, cells, t=t: (t, pos))
        if t > 0:
            self.env.remove_cell_component(f't{t - 1}')
        self.env.add_cell_component('acc', [t * 100 + i for i in range(len(self.env.cells))])


def e8_contexts():
    problems = []
    model = Model()
    main = GridWorld(model, 3, 2)
    model.environment = main
    side = GridWorld(model, 3, 2, id='side')          # same model, not model.environment
    other = GridWorld(Model(), 3, 2)                   # another model
    sub = MyGrid(model)
    for k, env in enumerate((main, side, other, sub)):
        env.add_cell_component('v', lambda pos, cells, k=k: (k, pos))
    side.remove_cell_component('v')
    for k, env in enumerate((main, side, other, sub)):
        if k == 1:
            if 'v' in env.cells:
                problems.append('removal in side env failed')
        elif column(env, 'v') != [(k, p) for p in positions(env)]:
            problems.append(f'world {k} got foreign values')
    if column(sub, 'own') != [0, 10, 20, 1, 11, 21]:
        problems.append('subclass component')
    # replaced environment keeps its components; new one starts with none
    old = model.environment
    model.set_environment(LineWorld(model, 4))
    if list(model.environment.cells.columns) != ['pos'] or column(old, 'v') != [(0, p) for p in positions(old)]:
        problems.append('replacing the environment affected cell components')
    # inside a running timestep + completed model
    m = Model()
    env = GridWorld(m, 2, 2)
    m.environment = env
    env.add_cell_component('static', [9, 8, 7, 6])
    m.systems.add_system(Tinker(m, env))
    m.execute(3)
    exp_cols = ['pos', 'static', 'acc', 't2']
    if sorted(map(str, env.cells.columns)) != sorted(exp_cols):
        problems.append(f'in-timestep add/remove: {list(env.cells.columns)}')
    elif column(env, 't2') != [(2, p) for p in positions(env)] or column(env, 'acc') != [200, 201, 202, 203] \
            or column(env, 'static') != [9, 8, 7, 6]:
        problems.append('in-timestep add/remove changed values')
    m.complete()
    env.add_cell_component('late', lambda pos, cells: pos[0])
    env.remove_cell_component('static')
    if column(env, 'late') != [0, 1, 0, 1] or 'static' in env.cells:
        problems.append('completed model')
    # deepcopy / pickle of the table are independent copies
    dup = copy.deepcopy(env.cells)
    rt = pickle.loads(pickle.dumps(env.cells))
    env.remove_cell_component('late')
    if 'late' not in dup or 'late' not in rt or column_df(dup, 'acc') != [200, 201, 202, 203]:
        problems.append('deepcopy/pickle of cells')
    # generator that reads another component through the ``cells`` argument and one that adds a component itself
    env = LineWorld(Model(), 4)
    env.add_cell_component('base', [1, 2, 3, 4])
    env.add_cell_component('double', lambda pos, cells: int(cells['base'][pos[0]]) * 2)

    def nesting(pos, cells, env=env):
        env.add_cell_component(f'n{pos[0]}', ConstantGenerator(pos[0]))
        return -pos[0]
    env.add_cell_component('outer', nesting)
    if column(env, 'double') != [2, 4, 6, 8] or column(env, 'outer') != [0, -1, -2, -3] or \
            any(column(env, f'n{i}') != [i] * 4 for i in range(4)) or column(env, 'base') != [1, 2, 3, 4]:
        problems.append('generator using cells / nesting add_cell_component')
    # odd callables: class with __call__ + __len__ == 0 + __bool__ False, bound method, partial, builtin type
    import functools

    class Falsy:
        def __len__(self):
            return 0

        def __bool__(self):
            return False

        def __call__(self, pos, cells):
            return pos[0] + 1

        def meth(self, pos, cells):
            return pos[0] + 2
    env.add_cell_component('f1', Falsy())
    env.add_cell_component('f2', Falsy().meth)
    env.add_cell_component('f3', functools.partial(lambda k, pos, cells: pos[0] + k, 3))

    class CallableList(list):            # a list that is also callable is a list
        def __call__(self, pos, cells):
            return 'called'
    env.add_cell_component('f4', CallableList([5, 6, 7, 8]))
    if [column(env, f'f{i}') for i in (1, 2, 3, 4)] != [[1, 2, 3, 4], [2, 3, 4, 5], [3, 4, 5, 6], [5, 6, 7, 8]]:
        problems.append('odd callables')
    if problems:
        report('VIOLATION', 'E8 contexts', '; '.join(problems[:6]))
    else:
        report('OK', 'E8 four worlds in two models (side env, subclass adding in __init__), replaced environment, add/remove '
                     'from inside a running timestep, completed model, deepcopy/pickle, generator reading cells, nested '
                     'add from inside a generator, falsy callable objects, bound methods, partials, callable list')


def column_df(df, name):
    return [py(v) for v in df[name].tolist()]


# ---------------------------------------------------------------------------------------------------------------------
# E9  hash-seed independence and real multiprocessing
# ---------------------------------------------------------------------------------------------------------------------
def build_digest(_=None):
    env = DiscreteWorld(Model(), 3, 2, 2)
    env.add_cell_component('s', lambda pos, cells: 'v%d%d%d' % pos)
    env.add_cell_component('set', lambda pos, cells: frozenset(pos))
    env.add_cell_component('l', [i * 1.5 for i in range(12)])
    env.add_cell_component('n', np.arange(12) ** 2)
    env.add_cell_component('t', LookupGenerator([[[x + 10 * y + 100 * z for z in range(2)] for y in range(2)]
                                                 for x in range(3)]))
    env.add_cell_component('gone', ConstantGenerator(1))
    env.remove_cell_component('gone')
    txt = repr([(str(c), [sorted(v) if isinstance(v, frozenset) else py(v) for v in env.cells[c].tolist()])
                for c in env.cells.columns])
    return hashlib.sha256(txt.encode()).hexdigest()


def e9_processes():
    problems = []
    here = build_digest()
    code = 'import hunt; print(hunt.build_digest())'
    for seed in ('0', '1', '12345'):
        envv = dict(os.environ, PYTHONHASHSEED=seed,
                    PYTHONPATH=os.path.dirname(os.path.abspath(__file__)) + os.pathsep + os.environ.get('PYTHONPATH', ''))
        try:
            out = subprocess.run([sys.executable, '-W', 'ignore', '-c', code], env=envv, capture_output=True, text=True,
                                 timeout=120, cwd=os.path.dirname(os.path.abspath(__file__)))
            if out.stdout.strip().splitlines()[-1:] != [here]:
                problems.append(f'PYTHONHASHSEED={seed}: {out.stdout.strip()[-80:]} {out.stderr.strip()[-200:]}')
        except subprocess.TimeoutExpired:
            problems.append(f'PYTHONHASHSEED={seed}: timeout')
    for method in ('fork', 'spawn'):
        try:
            ctx = multiprocessing.get_context(method)
            with ctx.Pool(2) as pool:
                res = pool.map_async(build_digest, range(4)).get(timeout=120)
            if set(res) != {here}:
                problems.append(f'{method} pool: {res}')
        except multiprocessing.TimeoutError:
            problems.append(f'{method} pool: timeout')
        except ValueError:
            pass  # start method not available
    if problems:
        report('VIOLATION', 'E9 hash seed / multiprocessing', '; '.join(problems[:6]))
    else:
        report('OK', 'E9 identical component contents under PYTHONHASHSEED 0/1/12345 and in fork/spawn pools with 2 processes')


# ---------------------------------------------------------------------------------------------------------------------
# E10  out-of-scope / unspecified oddities (reported as NOTE, not counted)
# ---------------------------------------------------------------------------------------------------------------------
def e10_notes():
    # the built-in 'pos' component is not protected
    env = LineWorld(Model(), 3)
    env.add_cell_component('pos', ConstantGenerator((0, 0, 0)))
    env.add_cell_component('b', lambda pos, cells: pos[0])
    if column(env, 'b') != [0, 1, 2]:
        report('NOTE', "E10a borderline: the built-in 'pos' component can be overwritten, after which generators get wrong "
                       "coordinates",
               f"LineWorld(3); add_cell_component('pos', ConstantGenerator((0,0,0))); add_cell_component('b', lambda p, c: "
               f"p[0]) -> {[py(v) for v in column(env, 'b')]} (expected [0, 1, 2])")
    env = LineWorld(Model(), 3)
    env.remove_cell_component('pos')
    try:
        env.add_cell_component('b', lambda pos, cells: pos[0])
    except KeyError as e:
        report('NOTE', "E10b borderline: the built-in 'pos' component can be removed, after which every callable source fails",
               f"LineWorld(3); remove_cell_component('pos'); add_cell_component('b', callable) -> KeyError {e}")
    # 0-d ndarray is broadcast instead of rejected (source of the wrong size: out of scope)
    env = LineWorld(Model(), 3)
    try:
        env.add_cell_component('s', np.array(7))
        report('NOTE', 'E10c out of scope (wrong-size source): a 0-d ndarray is broadcast to every cell instead of rejected',
               f"LineWorld(3); add_cell_component('s', np.array(7)) -> {[py(v) for v in column(env, 's')]}")
    except Exception:
        pass
    try:
        env.add_cell_component('s2', np.array([[1], [2], [3]]))
        report('NOTE', 'E10d out of scope (docs demand 1-D): an (N,1) ndarray is accepted and flattened', '')
    except Exception:
        pass
    # tuples / ranges are sequences but are treated as generators
    try:
        env.add_cell_component('t', (1, 2, 3))
    except TypeError as e:
        report('NOTE', 'E10e out of scope (scope lists list/ndarray only): a tuple or range source is rejected with '
                       f'"{e}" rather than used as a sequence', '')
    # masked arrays lose their mask
    env.add_cell_component('m', np.ma.array([1, 2, 3], mask=[0, 1, 0]))
    if column(env, 'm') == [1, 2, 3]:
        report('NOTE', 'E10f out of scope (ndarray subclass): a numpy masked array loses its mask (np.copy drops subclasses)', '')
    # get_cell is unusable on LineWorld / GridWorld (reading helper, not part of this property)
    g = GridWorld(Model(), 3, 2)
    try:
        g.get_cell(1, 1)
    except IndexError as e:
        report('NOTE', 'E10g other property: get_cell() rejects every coordinate on LineWorld/GridWorld (axes with extent 0)',
               f'GridWorld(3,2).get_cell(1,1) -> IndexError {e}')
    # degenerate worlds: discrete_grid_pos_to_id collides, so "cell with id i" is only meaningful as the row number
    d = DiscreteWorld(Model(), 2, 0, 3)
    ids = [discrete_grid_pos_to_id(x, y, d.width, z, d.height) for (x, y, z) in positions(d)]
    if len(set(ids)) != len(ids):
        report('NOTE', 'E10h unspecified: in degenerate worlds such as DiscreteWorld(2,0,3) discrete_grid_pos_to_id(x,y,width,'
                       'z,height) is not injective; hunt.py takes "the cell with id i" to be row i of env.cells', f'ids {ids}')


# ---------------------------------------------------------------------------------------------------------------------
# E11  many components (DataFrame fragmentation), a source taken from another component, big world
# ---------------------------------------------------------------------------------------------------------------------
def e11_many_and_derived():
    problems = []
    env = GridWorld(Model(), 4, 3)
    n = 12
    for k in range(150):
        kind = k % 3
        if kind == 0:
            env.add_cell_component(f'c{k}', [k * 1000 + i for i in range(n)])
        elif kind == 1:
            env.add_cell_component(f'c{k}', np.arange(n) + k * 1000)
        else:
            env.add_cell_component(f'c{k}', lambda pos, cells, k=k: k * 1000 + pos[0] + 4 * pos[1])
    for k in range(0, 150, 7):
        env.remove_cell_component(f'c{k}')
    for k in range(150):
        if k % 7 == 0:
            if f'c{k}' in env.cells:
                problems.append(f'c{k} not removed')
        elif column(env, f'c{k}') != [k * 1000 + i for i in range(n)]:
            problems.append(f'c{k} changed')
    # component built from another component's own storage, then the first one is changed / removed
    env = LineWorld(Model(), 4)
    env.add_cell_component('a', np.array([1, 2, 3, 4]))
    env.add_cell_component('b', env.cells['a'].to_numpy())
    env.add_cell_component('c', list(env.cells['a']))
    env.add_cell_component('a', [9, 9, 9, 9])
    env.remove_cell_component('a')
    if column(env, 'b') != [1, 2, 3, 4] or column(env, 'c') != [1, 2, 3, 4]:
        problems.append('component derived from another component changed with it')
    # a bigger world, every cell distinguishable, id <-> position mapping
    env = DiscreteWorld(Model(), 7, 5, 3)
    env.add_cell_component('id', lambda pos, cells: discrete_grid_pos_to_id(pos[0], pos[1], 7, pos[2], 5))
    env.add_cell_component('seq', list(range(105)))
    env.add_cell_component('arr', np.arange(105))
    if not (column(env, 'id') == column(env, 'seq') == column(env, 'arr') == list(range(105))):
        problems.append('id of row i is not i in a 7x5x3 world')
    if problems:
        report('VIOLATION', 'E11 many components / derived sources / big world', '; '.join(problems[:6]))
    else:
        report('OK', 'E11 150 components of three source kinds with 22 removals; components built from another component\'s '
                     'storage survive its overwrite and removal; 7x5x3 world: row i <-> discrete_grid_pos_to_id')


# ---------------------------------------------------------------------------------------------------------------------
def main():
    e1_all_shapes_all_sources()
    e2_value_coercion()
    e3_lookup_scalar_entries()
    e4_lookup_container_entries()
    e5_independence()
    e6_histories()
    e7_error_paths()
    e8_contexts()
    e9_processes()
    e11_many_and_derived()
    e10_notes()
    print()
    print(f'{len(VIOLATIONS)} genuine violation(s), {len(NOTES)} note(s) outside the scope')
    for v in VIOLATIONS:
        print('  VIOLATION:', v)
    return 1 if VIOLATIONS else 0


if __name__ == '__main__':
    sys.exit(main())
