#!/usr/bin/env python
"""Second-pass bug hunt for the property

    "A batch runs every combination x repetition once; no result lost or mixed"

Run with:   cd /tmp/wt-C15-i && PYTHONPATH=/tmp/wt-C15-i /venv/bin/python hunt.py

Only the public API of ECAgent is used.  Everything that touches real multiprocessing is executed in a child
interpreter (own session, hard timeout, whole process group killed afterwards), so a dead-locked pool cannot hang the
hunt itself.

Every experiment prints one line:
    OK         - the property holds for this angle
    VIOLATION  - genuine violation of the property inside its stated scope   (makes the exit status 1)
    NOTE       - behaviour worth knowing about that is outside the stated scope / merely unspecified (not counted)
"""
import collections
import faulthandler
import os
import signal
import subprocess
import sys
import time

import ECAgent.Batching as batching
import ECAgent.Collectors as collectors
import ECAgent.Core as core
import ECAgent.Environments as envs
import ECAgent.Tags as Tags

HERE = os.path.dirname(os.path.abspath(__file__))
NCPU = os.cpu_count() or 2


# ---------------------------------------------------------------------------------------------------------------------
# Models used by the experiments (module level, so that they can be pickled by reference)
# ---------------------------------------------------------------------------------------------------------------------
class Boom(Exception):
    pass


class MultiArgError(Exception):
    def __init__(self, a, b):
        super().__init__(a, b)
        self.a, self.b = a, b


class Driver(core.System):
    """Completes the model at timestep T; optionally fails at timestep 1."""

    def execute(self):
        m = self.model
        if m.fail and m.systems.timestep == min(1, m.T):
            raise Boom(m.key)
        if m.systems.timestep == m.T:
            m.complete()


class KeyCollector(collectors.Collector):
    """Every record carries the identity of the execution that produced it."""

    def collect(self):
        self.records.append((self.id, self.model.key, self.model.systems.timestep, 'x' * self.model.pad))


class GridModel(core.Model):
    def __init__(self, a=0, b=0, T=3, failat=None, jitter=0.0, pad=0):
        super().__init__()
        self.key = (a, b)
        self.T = T
        self.pad = pad
        self.fail = failat is not None and failat == a
        if jitter:
            # os.urandom: the global random module state would be identical in every forked worker
            time.sleep(int.from_bytes(os.urandom(2), 'big') / 65535.0 * jitter)
        self.systems.add_system(KeyCollector('c', self, priority=10))   # before the driver: collects in the last step
        self.systems.add_system(Driver('driver', self, priority=5))
        self.systems.add_system(KeyCollector('d', self, priority=-1))   # after the driver: skipped in the last step
        self.systems.add_system(KeyCollector('', self, priority=-2))    # falsy id


class CompletedInInit(core.Model):
    def __init__(self, a=0):
        super().__init__()
        self.key = (a, 0)
        self.pad = 0
        self.systems.add_system(KeyCollector('c', self))
        self.complete()


class StopIterModel(core.Model):
    def __init__(self, a=0):
        super().__init__()
        self.a = a
        self.systems.add_system(StopIterSystem('s', self))


class StopIterSystem(core.System):
    def execute(self):
        if self.model.a == 2:
            next(iter([]))  # StopIteration


class MultiArgModel(core.Model):
    def __init__(self, a=0):
        super().__init__()
        if a == 2:
            raise MultiArgError(a, 'x')


class PkgAgent(core.Agent):
    pass


class PkgErrSystem(core.System):
    def execute(self):
        m = self.model
        kind = m.kind
        if kind == 'AgentNotFoundError':
            m.environment.remove_agent('nope')
        elif kind == 'DuplicateAgentError':
            m.environment.add_agent(PkgAgent('a0', m))
        elif kind == 'ComponentNotFoundError':
            m.environment.get_agent('a0').get_component(envs.PositionComponent, throw_error=True)
        elif kind == 'SystemNotFoundError':
            m.systems.remove_system('nope')
        elif kind == 'ModelCompleteError':
            m.complete()
            m.systems.execute_systems(throw_error=True)
        elif kind == 'TagNotFoundError':
            Tags.get_tag_name(12345)
        elif kind == 'DuplicateTagError':
            Tags.add_tag('NONE')


class PkgErrModel(core.Model):
    def __init__(self, kind, with_lambda=False):
        super().__init__()
        self.kind = kind
        self.environment.add_agent(PkgAgent('a0', self))
        self.systems.add_system(PkgErrSystem('err', self))
        if with_lambda:  # the documented way of using an AgentCollector
            self.systems.add_system(collectors.AgentCollector(self, lambda agent: 1))


class AgentRecorder(collectors.Collector):
    def collect(self):
        self.records.append(self.model.environment.get_agents())


class WorldModel(core.Model):
    def __init__(self, n=1):
        super().__init__()
        self.environment = envs.GridWorld(self, 3, 3)
        self.environment.add_cell_component('res', envs.ConstantGenerator(2))
        for i in range(n):
            self.environment.add_agent(PkgAgent(f'a{i}', self), i % 3, 0)
        self.systems.add_system(AgentRecorder('rec', self))


class SumCollector(collectors.Collector):
    def collect(self):
        self.records.append(sum(self.model.state))


class GrowSystem(core.System):
    def execute(self):
        state = self.model.state
        for i in range(len(state)):  # in-place update of the state the model was given
            state[i] += self.model.rate
        if self.model.systems.timestep == 2:
            self.model.complete()


class StateModel(core.Model):
    """A model that is handed its initial state and updates it in place (plain list; a numpy array behaves the same)."""

    def __init__(self, initial, rate):
        super().__init__()
        self.state = initial
        self.rate = rate
        self.systems.add_system(SumCollector('acc', self, priority=5))
        self.systems.add_system(GrowSystem('grow', self, priority=1))


class TagInInitModel(core.Model):
    def __init__(self, a=0):
        super().__init__()
        Tags.add_tag('HUNT_WOLF')


class ClsCompAgent(core.Agent):
    pass


class ClsComp(core.Component):
    pass


class ClassComponentInInitModel(core.Model):
    def __init__(self, a=0):
        super().__init__()
        ClsCompAgent.add_class_component(ClsComp(ClsCompAgent, self))


class NestedSystem(core.System):
    """Runs a whole (serial) batch from inside a running timestep of another execution."""

    def execute(self):
        if self.model.systems.timestep == 0:
            inner = batching.batch_run(GridModel, {'a': [7, 8], 'T': 1}, 'c')
            self.model.inner = [[r[1] for r in rec] for rec in inner]
        else:
            self.model.complete()


class NestedCollector(collectors.Collector):
    def collect(self):
        self.records.append((self.model.a, self.model.inner))


class NestedModel(core.Model):
    def __init__(self, a=0):
        super().__init__()
        self.a = a
        self.systems.add_system(NestedSystem('n', self, priority=1))
        self.systems.add_system(NestedCollector('c', self, priority=0))


def score_one(model):
    return 1.0


# ---------------------------------------------------------------------------------------------------------------------
# helpers
# ---------------------------------------------------------------------------------------------------------------------
RESULTS = []


def report(status, name, message=''):
    RESULTS.append((status, name))
    print(f'[{status:9}] {name}' + (f'\n            {message}' if message else ''), flush=True)


def expected_lengths(T, limit, prio_before_driver):
    """Number of records of a collector for completion time T and step limit `limit`."""
    steps = min(limit, T + 1) if limit > 0 else 0          # executed timesteps 0 .. steps-1
    if prio_before_driver:
        return steps
    return min(steps, T)                                    # the completing step stops before lower priorities


def check_single(result, combos, name='c', limit=10 ** 9, ordered=True):
    """`result` of batch_run(..., collectors=<one name>) against the expected list of (a, b, T) executions."""
    problems = []
    if len(result) != len(combos):
        problems.append(f'{len(result)} results for {len(combos)} executions')
        return problems
    seen = []
    for rec in result:
        keys = {r[1] for r in rec}
        ids = {r[0] for r in rec}
        if len(keys) > 1 or (ids and ids != {name}):
            problems.append(f'mixed records {keys} {ids}')
        ts = [r[2] for r in rec]
        if ts != list(range(len(ts))):
            problems.append(f'timesteps not contiguous {ts}')
        if ts and ts[-1] >= limit:
            problems.append(f'advanced past the step limit: {ts[-1]} >= {limit}')
        seen.append((next(iter(keys)) if keys else None, len(rec)))
    exp = [((a, b) if expected_lengths(T, limit, name == 'c') else None, expected_lengths(T, limit, name == 'c'))
           for (a, b, T) in combos]
    if ordered:
        if seen != exp:
            problems.append(f'order/content differs: got {seen[:6]}.. expected {exp[:6]}..')
    elif collections.Counter(seen) != collections.Counter(exp):
        problems.append(f'multiset differs: got {sorted(map(str, seen))[:6]}.. expected {sorted(map(str, exp))[:6]}..')
    return problems


def run_child(name, *args, timeout=60, env_extra=None):
    """Runs `hunt.py --child name args` in its own session; returns (hung, returncode, output)."""
    env = dict(os.environ)
    env['PYTHONPATH'] = HERE + os.pathsep + env.get('PYTHONPATH', '')
    if env_extra:
        env.update(env_extra)
    proc = subprocess.Popen([sys.executable, '-u', os.path.abspath(__file__), '--child', name] + [str(a) for a in args],
                            stdout=subprocess.PIPE, stderr=subprocess.STDOUT, stdin=subprocess.DEVNULL,
                            start_new_session=True, env=env, cwd=HERE)
    hung = False
    try:
        out, _ = proc.communicate(timeout=timeout)
    except subprocess.TimeoutExpired:
        hung = True
        out = b''
    try:
        os.killpg(proc.pid, signal.SIGKILL)      # also reaps orphaned pool workers
    except (ProcessLookupError, PermissionError):
        pass
    if hung:
        try:
            out, _ = proc.communicate(timeout=5)
        except Exception:
            out = out or b''
    text = (out or b'').decode(errors='replace')
    if 'Timeout (0:' in text:                    # faulthandler watchdog inside the child fired
        hung = True
    return hung, proc.returncode, text


def child_lines(text, prefix):
    return [line[len(prefix):].strip() for line in text.splitlines() if line.startswith(prefix)]


# ---------------------------------------------------------------------------------------------------------------------
# child side (real multiprocessing lives here)
# ---------------------------------------------------------------------------------------------------------------------
def child_main(name, args):
    if name == 'parallel_ok':
        # every process count, jittered durations, 1 and several collectors, repetitions; compare with expectation
        counts = sorted({2, 3, max(2, NCPU // 2), NCPU})
        grid = {'a': [0, 1, 2, 3], 'b': ['u', 'v'], 'T': [1, 4], 'jitter': 0.03}
        combos = [(a, b, T) for a in grid['a'] for b in grid['b'] for T in grid['T']] * 2
        bad = []
        for procs in counts + [None]:
            for limit in (2, 10 ** 9):
                res = batching.batch_run(GridModel, grid, 'c', processes=procs, repetitions=2, max_timesteps=limit)
                bad += [f'procs={procs} limit={limit}: {p}' for p in check_single(res, combos, 'c', limit, False)]
            res = batching.batch_run(GridModel, grid, ['c', 'd', ''], processes=procs, repetitions=2, max_timesteps=3)
            if len(res) != len(combos):
                bad.append(f'procs={procs}: {len(res)} dict results')
            for d in res:
                if set(d) != {'c', 'd', ''}:
                    bad.append(f'keys {set(d)}')
                    continue
                owners = {r[1] for k in d for r in d[k]}
                names_ok = all(r[0] == k for k in d for r in d[k])
                if len(owners) != 1 or not names_ok:
                    bad.append(f'mixed dict result {owners}')
        print('RESULT', 'OK' if not bad else 'BAD ' + '; '.join(bad[:4]))

    elif name == 'fail_small':
        # a failing execution at every position, small results
        n = 7
        procs_list = sorted({2, 3, NCPU})
        faulthandler.dump_traceback_later(100, exit=True)
        bad = []
        for procs in procs_list:
            for pos in range(n):
                try:
                    batching.batch_run(GridModel, {'a': list(range(n)), 'failat': pos, 'jitter': 0.01}, 'c',
                                       processes=procs)
                    bad.append(f'procs={procs} pos={pos}: no error reached the caller')
                except Boom as e:
                    if e.args != ((pos, 0),):
                        bad.append(f'procs={procs} pos={pos}: wrong error {e.args}')
        print('RESULT', 'OK' if not bad else 'BAD ' + '; '.join(bad[:4]))

    elif name == 'fail_large':
        # one failing execution while the other workers are sending sizeable results back
        procs, n, failat, pad, watchdog = (int(x) for x in args)
        faulthandler.dump_traceback_later(watchdog, exit=True)   # prints where batch_run is stuck, then _exit(1)
        t0 = time.time()
        try:
            batching.batch_run(GridModel, {'a': list(range(n)), 'T': 0, 'failat': failat, 'pad': pad}, 'c',
                               processes=procs)
            print('RESULT NOERROR')
        except Boom as e:
            print('RESULT RAISED', e.args, round(time.time() - t0, 2))

    elif name == 'exceptions':
        import multiprocessing.pool as mpp
        for procs in (1, 2):
            for kind in ('AgentNotFoundError', 'DuplicateAgentError', 'ComponentNotFoundError', 'SystemNotFoundError',
                         'ModelCompleteError', 'TagNotFoundError', 'DuplicateTagError'):
                for with_lambda in (False, True):
                    try:
                        batching.batch_run(PkgErrModel, {'kind': kind, 'with_lambda': with_lambda}, None,
                                           processes=procs, max_timesteps=2)
                        print('EXC', procs, kind, with_lambda, 'NOERROR')
                    except Exception as e:
                        print('EXC', procs, kind, with_lambda, type(e).__name__, '|', str(e)[:160].replace('\n', ' '))
            try:
                batching.batch_run(StopIterModel, {'a': [1, 2, 3]}, None, processes=procs, max_timesteps=2)
                print('STOPITER', procs, 'NOERROR')
            except Exception as e:
                print('STOPITER', procs, type(e).__name__)
            try:
                batching.batch_run(MultiArgModel, {'a': [1, 2, 3]}, None, processes=procs, max_timesteps=2)
                print('MULTIARG', procs, 'NOERROR')
            except Exception as e:
                print('MULTIARG', procs, type(e).__name__, getattr(e, 'a', None), getattr(e, 'b', None))
        # things that cannot be sent to a worker
        try:
            batching.batch_run(GridModel, {'a': [lambda: 1]}, 'c', processes=2)
            print('UNPICKLABLE_PARAM NOERROR')
        except Exception as e:
            print('UNPICKLABLE_PARAM', type(e).__name__)

        def factory():
            class Local(GridModel):
                pass
            return Local
        try:
            batching.batch_run(factory(), {'a': [1, 2]}, 'c', processes=2)
            print('LOCAL_CLASS NOERROR')
        except Exception as e:
            print('LOCAL_CLASS', type(e).__name__)
        # grid_search (adjacent function, not batch_run)
        for procs in (1, 2):
            try:
                best, everything = batching.grid_search(StopIterModel, {'a': [1, 3, 2, 4]}, score_one, processes=procs,
                                                        max_timesteps=2)
                print('GRIDSEARCH_STOPITER', procs, 'returned', len(everything), 'of 4')
            except BaseException as e:
                print('GRIDSEARCH_STOPITER', procs, type(e).__name__)

    elif name == 'start_method':
        import multiprocessing as mp
        mp.set_start_method(args[0])
        grid = {'a': [0, 1, 2], 'b': [5, 6], 'jitter': 0.02}
        combos = [(a, b, 3) for a in grid['a'] for b in grid['b']] * 2
        res = batching.batch_run(GridModel, grid, 'c', processes=3, repetitions=2)
        bad = check_single(res, combos, 'c', ordered=False)
        try:
            batching.batch_run(GridModel, {'a': [0, 1, 2, 3], 'failat': 2}, 'c', processes=2)
            bad.append('no error')
        except Boom:
            pass
        print('RESULT', 'OK' if not bad else 'BAD ' + '; '.join(bad[:4]))

    elif name == 'mutable_param':
        out = {}
        for procs in (1, 2):
            initial = [0, 0, 0, 0]
            res = batching.batch_run(StateModel, {'initial': [initial], 'rate': [1, 2, 3]}, 'acc', processes=procs)
            out[procs] = (sorted(tuple(r) for r in res), list(initial))
            print('MUT', procs, out[procs][0], 'caller list afterwards', out[procs][1])

    elif name == 'objects_in_records':
        res = batching.batch_run(WorldModel, {'n': [1, 2, 3]}, 'rec', processes=2, max_timesteps=2)
        ok = sorted(len(r[0]) for r in res) == [1, 2, 3] and all(
            type(agent) is PkgAgent and type(agent.model.environment) is envs.GridWorld for r in res for agent in r[0])
        print('RESULT', 'OK' if ok else 'BAD')

    elif name == 'hashseed':
        res = batching.batch_run(GridModel, {'a': [1, 2], 'b': [3]}, {'c', 'd', ''}, processes=1, max_timesteps=3)
        print('RESULT', sorted((k, tuple(v)) for d in res for k, v in d.items()))

    elif name == 'global_state':
        for cls in (TagInInitModel, ClassComponentInInitModel):
            for procs in (1, 2):
                try:
                    batching.batch_run(cls, {'a': [1, 2, 3, 4]}, None, processes=procs, max_timesteps=1)
                    print('GLOBAL', cls.__name__, procs, 'ran all')
                except Exception as e:
                    print('GLOBAL', cls.__name__, procs, type(e).__name__, '|', str(e)[:120])
    else:
        raise SystemExit(f'unknown child {name}')


# ---------------------------------------------------------------------------------------------------------------------
# experiments (parent side)
# ---------------------------------------------------------------------------------------------------------------------
def exp_serial_grid_shapes():
    """Angle 1: grid shapes, falsy values, product order, repetitions (one process)."""
    import numpy as np
    problems = []
    cases = [
        ({}, [(0, 0, 3)]),                                                  # empty product: exactly one execution
        ({'a': []}, []),                                                    # empty factor: no execution
        ({'a': 5}, [(5, 0, 3)]),
        ({'a': [0, False, None, '', 0.0, -0.0]}, [(v, 0, 3) for v in [0, False, None, '', 0.0, -0.0]]),
        ({'a': 'abc', 'b': ['x', 'yz']}, [('abc', 'x', 3), ('abc', 'yz', 3)]),
        ({'a': (1, 2), 'b': range(3)}, [(a, b, 3) for a in (1, 2) for b in range(3)]),
        ({'a': (i for i in range(3)), 'b': iter('pq')}, [(a, b, 3) for a in range(3) for b in 'pq']),
        ({'a': np.array([1, 2]), 'b': [1, 1]}, [(np.int64(a), 1, 3) for a in (1, 1, 2, 2)]),         # duplicates kept
        ({'a': [10 ** 30, -1], 'T': [0, 2]}, [(a, 0, T) for a in (10 ** 30, -1) for T in (0, 2)]),
        ({'a': [(1, 2), [3]]}, [((1, 2), 0, 3), ([3], 0, 3)]),              # nested containers are single values
    ]
    for reps in (1, 3, 0, True, np.int64(2)):
        for grid, combos in cases:
            grid = dict(grid)
            if any(hasattr(v, '__next__') for v in grid.values()):
                grid = {'a': (i for i in range(3)), 'b': iter('pq')}       # fresh one-shot iterables per call
            res = batching.batch_run(GridModel, grid, 'c', repetitions=reps)
            exp = [(a, b, T) for _ in range(int(reps)) for (a, b, T) in combos]
            if len(res) != len(exp):
                problems.append(f'{grid} x{reps!r}: {len(res)} results, expected {len(exp)}')
                continue
            for rec, (a, b, T) in zip(res, exp):
                if not rec or any(type(r[1][0]) is not type(a) or r[1] != (a, b) for r in rec) or len(rec) != T + 1:
                    problems.append(f'{grid} x{reps!r}: result {rec[:1]} does not belong to {(a, b, T)}')
                    break
    # ParameterList and dict give the same thing; ParameterList object reused across calls
    plist = batching.ParameterList({'a': [1, 2]})
    plist.add_parameter('b', (3, 4))
    first = batching.batch_run(GridModel, plist, 'c')
    second = batching.batch_run(GridModel, plist, 'c')
    third = batching.batch_run(GridModel, {'a': [1, 2], 'b': (3, 4)}, 'c')
    if not (first == second == third) or first is second or first[0] is second[0]:
        problems.append('ParameterList/dict or reuse across calls differ')
    report('OK' if not problems else 'VIOLATION', 'serial: grid shapes / falsy values / product order / repetitions',
           '; '.join(problems[:3]))


def exp_serial_step_limits():
    """Angle 2: step limit below / at / above completion, odd limit types."""
    import numpy as np
    problems = []
    grid = {'a': [1, 2], 'T': [0, 1, 3]}
    combos = [(a, 0, T) for a in (1, 2) for T in (0, 1, 3)]
    for limit in (0, 1, 2, 3, 4, 5, 50, -1, True, np.int64(2), 2.0, float('inf'), 10 ** 40, -0.0):
        for name in ('c', 'd', ''):
            res = batching.batch_run(GridModel, grid, name, max_timesteps=limit)
            lim = max(0, int(limit)) if limit != float('inf') else 10 ** 9
            problems += [f'limit={limit!r} {name!r}: {p}' for p in check_single(res, combos, name, lim)]
    res = batching.batch_run(CompletedInInit, {'a': [1, 2]}, 'c')
    if res != [[], []]:
        problems.append(f'model completed in its constructor: {res}')       # empty (falsy) results are kept
    res = batching.batch_run(NestedModel, {'a': [1, 2]}, 'c', max_timesteps=5)
    inner = [[(7, 0)] * 2, [(8, 0)] * 2]
    if res != [[(1, inner)], [(2, inner)]]:
        problems.append(f'nested batch_run inside a step: {res}')
    report('OK' if not problems else 'VIOLATION', 'serial: step limit below/at/above completion, limit types, '
           'completed-in-constructor, nested batch', '; '.join(problems[:3]))


def exp_serial_collectors():
    """Angle 3: collector selection."""
    problems = []
    grid = {'a': [1, 2, 3]}
    for sel in (['c', 'd'], ('c', 'd'), (n for n in ('c', 'd')), {'c': 0, 'd': 0}, ['c', 'd', 'c'], iter(['c', 'd'])):
        res = batching.batch_run(GridModel, grid, sel, repetitions=2)
        if len(res) != 6 or any(set(d) != {'c', 'd'} for d in res):
            problems.append(f'{sel!r}: wrong shape')
            continue
        if [d['c'][0][1] for d in res] != [(1, 0), (2, 0), (3, 0)] * 2:
            problems.append(f'{sel!r}: wrong order')
        if any(r[0] != k or r[1] != d['c'][0][1] for d in res for k in d for r in d[k]):
            problems.append(f'{sel!r}: mixed')
    if batching.batch_run(GridModel, grid, []) != [{}, {}, {}]:
        problems.append('empty selection')
    if [len(r) for r in batching.batch_run(GridModel, grid, '')] != [3, 3, 3]:
        problems.append("collector with the falsy id ''")
    if batching.batch_run(GridModel, grid, [''])[0].keys() != {''}:
        problems.append("collector list ['']")
    for bad in ('missing', ['c', 'missing'], 34):
        try:
            batching.batch_run(GridModel, grid, bad)
            problems.append(f'{bad!r}: no error')
        except (AttributeError, KeyError):
            pass
    report('OK' if not problems else 'VIOLATION', 'serial: collector selection (one / several / one-shot / duplicates '
           "/ '' / empty / unknown)", '; '.join(problems[:3]))


def exp_parallel_ok():
    hung, rc, out = run_child('parallel_ok', timeout=240)
    res = child_lines(out, 'RESULT')
    if hung or not res:
        report('VIOLATION', 'parallel: 2..ncpu processes, jitter, no failing execution', f'hung={hung} rc={rc} {out[-300:]}')
    else:
        report('OK' if res[0] == 'OK' else 'VIOLATION',
               f'parallel: processes in {{2,3,{max(2, NCPU // 2)},{NCPU},None}}, jittered durations, 1 and 3 collectors, '
               f'repetitions, step limits', '' if res[0] == 'OK' else res[0])


def exp_fail_small():
    hung, rc, out = run_child('fail_small', timeout=150)
    res = child_lines(out, 'RESULT')
    if hung:
        report('VIOLATION', 'parallel: failing execution at every position (small results)',
               'batch_run never returned (rare variant of the dead-lock shown in the next experiment; observed roughly '
               'once per 10-100 failing batches): ' + ' | '.join(l.strip() for l in out.splitlines()
                                                                   if 'pool.py' in l or 'Batching.py' in l)[:600])
    elif not res or res[0] != 'OK':
        report('VIOLATION', 'parallel: failing execution at every position (small results)', (res or [out[-300:]])[0])
    else:
        report('OK', f'parallel: failing execution at each of 7 positions x processes {{2,3,{NCPU}}} (small results) '
               f'- the error reached the caller every time (this run)')


def exp_fail_large():
    """THE FINDING: a failing execution + other workers still sending results => batch_run can hang for ever."""
    procs = max(2, min(NCPU, 16))
    n, failat, pad, watchdog = 60, 25, 5_000_000, 15
    trials = 6 if procs >= 12 else 15
    outcomes = []
    evidence = ''
    for _ in range(trials):
        hung, rc, out = run_child('fail_large', procs, n, failat, pad, watchdog, timeout=watchdog + 15)
        res = child_lines(out, 'RESULT')
        if hung:
            outcomes.append('HUNG')
            frames = []
            for line in out.splitlines():
                if ('pool.py' in line or 'queues.py' in line or 'Batching.py' in line) and ' in ' in line:
                    frames.append(line.strip().replace('File "', '').replace('"', '').split('multiprocessing/')[-1])
                    if 'Batching.py' in line:
                        break
            evidence = ' <- '.join(frames)
            break
        outcomes.append(res[0] if res else f'rc={rc}')
    repro = (f"batch_run(GridModel, {{'a': list(range({n})), 'T': 0, 'failat': {failat}, 'pad': {pad}}}, 'c', "
             f"processes={procs})   # execution a=={failat} raises Boom, the others return ~{pad // 10 ** 6} MB records")
    if 'HUNG' in outcomes:
        report('VIOLATION', 'parallel: failing execution while other executions are returning sizeable records',
               f'batch_run NEVER RETURNS and the error never reaches the caller (trial outcomes: {outcomes}).\n'
               f'            repro: {repro}\n'
               f'            stuck at ({watchdog}s watchdog dump): {evidence[:900]}')
    elif all(o.startswith('RAISED') for o in outcomes):
        report('OK', f'parallel: failing execution + large results, {trials} trials with processes={procs}: raised '
               f'every time (the dead-lock is timing dependent; it needs roughly >= 8 busy workers)')
    else:
        report('VIOLATION', 'parallel: failing execution + large results', f'{outcomes}')


def exp_exceptions():
    hung, rc, out = run_child('exceptions', timeout=120)
    if hung:
        report('VIOLATION', 'exceptions crossing the process boundary', f'child hung: {out[-400:]}')
        return
    problems, notes = [], []
    for line in child_lines(out, 'EXC'):
        procs, kind, with_lambda, got = line.split(' ', 3)
        got_type = got.split(' ')[0]
        if got_type == 'NOERROR':
            problems.append(f'{kind} procs={procs}: dropped')
        elif got_type != kind:
            if procs == '2' and with_lambda == 'True' and got_type == 'MaybeEncodingError':
                notes.append(kind)
            else:
                problems.append(f'{kind} procs={procs} lambda={with_lambda}: arrived as {got}')
        elif procs == '2' and kind in ('TagNotFoundError', 'DuplicateTagError') and got.count('Tag with') > 1:
            notes.append(kind + ' (message duplicated)')
    for tag, want in (('STOPITER', 'RuntimeError'), ('MULTIARG', 'MultiArgError'), ('UNPICKLABLE_PARAM', None),
                      ('LOCAL_CLASS', None)):
        for line in child_lines(out, tag):
            got = line.split(' ')
            if 'NOERROR' in got or (want and want not in got):
                problems.append(f'{tag}: {line}')
    if any('None' in l for l in child_lines(out, 'MULTIARG')):
        problems.append('multi-argument user exception lost its attributes')
    report('OK' if not problems else 'VIOLATION',
           'exceptions: 7 package exceptions, StopIteration, multi-arg user exception, unpicklable parameter, local '
           'model class; processes 1 and 2 - an error always reached the caller', '; '.join(problems[:4]))
    lost = sorted({n for n in notes if 'duplicated' not in n})
    if lost:
        report('NOTE', 'a package exception raised in a worker whose model holds a lambda (AgentCollector(model, '
               'lambda a: ...), the documented usage) reaches the caller only as multiprocessing MaybeEncodingError',
               f'affected: {lost}. Their __reduce__ ships the whole Environment/Agent (-> Model -> systems -> lambda); '
               f'type and message of the original error are lost ("Error sending result: <ExceptionWithTraceback '
               f'object>"). An error does reach the caller, so not counted.')
    if any('duplicated' in n for n in notes):
        report('NOTE', 'Tags.DuplicateTagError / TagNotFoundError come back from a worker with a doubled message',
               'they have no __reduce__: rebuilt as DuplicateTagError(<message>) -> \'Tag with name "Tag with name "X" '
               'already exists." already exists.\' (attributes are restored). Cosmetic, not counted.')
    gs = child_lines(out, 'GRIDSEARCH_STOPITER')
    if len(gs) == 2 and gs[0] != gs[1] or any('returned' in g for g in gs):
        report('NOTE', 'grid_search (not batch_run) still drops a StopIteration raised by an execution when '
               'processes > 1', f'serial: {gs[0]!r}; pool: {gs[1]!r} - pool.imap() ends silently, the remaining '
               f'combinations are lost and a "best" one is returned. Outside this property (batch_run), not counted.')


def exp_start_methods():
    problems = []
    for method in ('spawn', 'forkserver'):
        hung, rc, out = run_child('start_method', method, timeout=120)
        res = child_lines(out, 'RESULT')
        if hung or not res or res[0] != 'OK':
            problems.append(f'{method}: hung={hung} {res or out[-200:]}')
    report('OK' if not problems else 'VIOLATION', 'parallel: spawn and forkserver start methods (results + error)',
           '; '.join(problems))


def exp_mutable_param():
    hung, rc, out = run_child('mutable_param', timeout=60)
    lines = child_lines(out, 'MUT')
    if hung or len(lines) != 2:
        report('VIOLATION', 'mutable parameter value', f'hung={hung} {out[-300:]}')
        return
    serial, parallel = lines[0].split(' ', 1)[1], lines[1].split(' ', 1)[1]
    if serial != parallel:
        report('VIOLATION', 'executions are not isolated with processes=1: a parameter value object is shared by all '
               'executions (and with the caller), with processes>1 every execution gets its own copy',
               "repro: batch_run(StateModel, {'initial': [[0, 0, 0, 0]], 'rate': [1, 2, 3]}, 'acc', processes=p)  "
               "# the model updates `initial` in place\n"
               f'            processes=1 -> {serial}\n'
               f'            processes=2 -> {parallel}\n'
               '            (records of execution k depend on executions 0..k-1; the result set depends on the '
               'process count)')
    else:
        report('OK', 'mutable parameter value: same results for 1 and 2 processes')


def exp_parameterlist_subclass():
    class MyList(batching.ParameterList):
        pass
    try:
        res = batching.batch_run(GridModel, MyList({'a': [1, 2]}), 'c')
        report('OK' if len(res) == 2 else 'VIOLATION', 'ParameterList subclass accepted by batch_run')
    except TypeError as e:
        report('NOTE', 'batch_run rejects an instance of a ParameterList subclass',
               f"batch_run(M, MyList({{'a': [1, 2]}}), 'c') -> TypeError: {e}  (Batching.py:277 uses type(parameters) == "
               f"ParameterList and then treats the object as a dict). Loud, nothing is lost; the way the grid is "
               f"handed over is not a dimension of the stated scope -> reported, not counted.")


def exp_oneshot_parameter_reuse():
    plist = batching.ParameterList()
    plist.add_parameter('a', (i for i in range(3)))
    first = len(batching.batch_run(GridModel, plist, 'c'))
    second = len(batching.batch_run(GridModel, plist, 'c'))
    if (first, second) == (3, 3):
        report('OK', 'ParameterList holding a one-shot iterable can be reused')
    else:
        report('NOTE', 'a ParameterList holding a one-shot iterable is silently empty the second time it is built',
               f'p.add_parameter("a", (i for i in range(3))): first batch_run -> {first} executions, second -> {second} '
               f'(also after a mere p.build()). Within ONE batch_run the product is complete, so not counted; '
               f'add_parameter/__init__ could materialise iterables the way batch_run now does for collector names.')


def exp_build_swallows_typeerror():
    def gen():
        yield 1
        raise TypeError('bug inside the user generator')
    built = batching.ParameterList({'a': gen()}).build()
    if len(built) == 1 and hasattr(built[0]['a'], '__next__'):
        report('NOTE', 'ParameterList.build() swallows a TypeError raised while iterating a parameter value',
               'the half-consumed generator itself becomes the single value of the parameter (side effect of the 0-d '
               'numpy array support, Batching.py:134-137). Grid construction, not an execution -> not counted.')
    else:
        report('OK', 'TypeError raised by a parameter iterable is not swallowed')
    if batching.ParameterList({'a': b'ab'}).build() == [{'a': 97}, {'a': 98}]:
        report('NOTE', 'a bytes parameter value is expanded into its integer byte values (str is a single value)',
               'unspecified by the documentation; not counted')


def exp_odd_process_and_limit_types():
    import numpy as np
    problems = []
    grid = {'a': [1, 2]}
    for procs in (True, 1.0, np.int64(1)):
        if [r[0][1] for r in batching.batch_run(GridModel, grid, 'c', processes=procs)] != [(1, 0), (2, 0)]:
            problems.append(f'processes={procs!r}')
    for procs in (0, -1):
        try:
            batching.batch_run(GridModel, grid, 'c', processes=procs)
            problems.append(f'processes={procs}: no error')
        except ValueError:
            pass
    report('OK' if not problems else 'VIOLATION', 'processes given as True / 1.0 / numpy.int64(1) / 0 / -1',
           '; '.join(problems))


def exp_hashseed():
    outs = set()
    for seed in ('0', '1', '2', '3'):
        hung, rc, out = run_child('hashseed', timeout=60, env_extra={'PYTHONHASHSEED': seed})
        outs.add(tuple(child_lines(out, 'RESULT')))
    report('OK' if len(outs) == 1 and outs != {()} else 'VIOLATION',
           'hash-seed independence (collector names given as a set, PYTHONHASHSEED 0..3)',
           '' if len(outs) == 1 else str(outs)[:300])


def exp_objects_in_records():
    hung, rc, out = run_child('objects_in_records', timeout=60)
    res = child_lines(out, 'RESULT')
    report('OK' if res == ['OK'] and not hung else 'VIOLATION',
           'records holding package objects (Agent -> Model -> GridWorld with cells) survive the trip back from a '
           'worker', '' if res == ['OK'] else f'hung={hung} {out[-300:]}')


def exp_global_state():
    hung, rc, out = run_child('global_state', timeout=60)
    lines = child_lines(out, 'GLOBAL')
    failing = [l for l in lines if 'ran all' not in l]
    if hung:
        report('VIOLATION', 'global state', out[-300:])
    elif failing:
        report('NOTE', 'a model whose constructor registers a tag (Tags.add_tag) or a class component '
               '(Agent.add_class_component, which needs a model instance) can be built only once per process',
               'the second execution in the same process raises DuplicateTagError / ValueError (both with 1 and with '
               'more processes); loud, caused by process-global registries rather than by batching -> not counted.')
    else:
        report('OK', 'global registries do not get in the way')


EXPERIMENTS = [
    exp_serial_grid_shapes,
    exp_serial_step_limits,
    exp_serial_collectors,
    exp_odd_process_and_limit_types,
    exp_parallel_ok,
    exp_fail_small,
    exp_fail_large,
    exp_exceptions,
    exp_start_methods,
    exp_mutable_param,
    exp_objects_in_records,
    exp_hashseed,
    exp_global_state,
    exp_parameterlist_subclass,
    exp_oneshot_parameter_reuse,
    exp_build_swallows_typeerror,
]


def main():
    import ECAgent
    print('ECAgent under test:', os.path.dirname(ECAgent.__file__), '| cores:', NCPU, '| python', sys.version.split()[0])
    for exp in EXPERIMENTS:
        try:
            exp()
        except Exception as e:  # an experiment itself blowing up is reported, never hidden
            report('VIOLATION', exp.__name__, f'experiment crashed: {type(e).__name__}: {e}')
    n_viol = sum(1 for status, _ in RESULTS if status == 'VIOLATION')
    n_note = sum(1 for status, _ in RESULTS if status == 'NOTE')
    print(f'\n{n_viol} genuine violation(s), {n_note} note(s) outside the stated scope, '
          f'{sum(1 for s, _ in RESULTS if s == "OK")} angle(s) OK')
    return 1 if n_viol else 0


if __name__ == '__main__':
    if len(sys.argv) > 2 and sys.argv[1] == '--child':
        child_main(sys.argv[2], sys.argv[3:])
    else:
        sys.exit(main())
