#!/usr/bin/env python
"""Bug hunt for the property

    "A batch runs every combination x repetition once; no result lost or mixed"

Run with:  cd /tmp/wt-C15-h && PYTHONPATH=/tmp/wt-C15-h /venv/bin/python hunt.py

Only the public API is used (ECAgent.Core / Batching / Collectors / Environments / Tags).
Every experiment that can hang is executed in a child process (this same file, ``--child NAME``) guarded by an alarm
inside the child and by a timeout in the parent.

Exit status: 1 if at least one GENUINE violation (tagged VIOLATION) was observed, else 0.
Experiments tagged NOTE are real observations that I do not count (unspecified / outside the stated scope / arguable).
"""
import json
import os
import random
import signal
import subprocess
import sys
import time

import ECAgent.Batching as B
import ECAgent.Collectors as C
import ECAgent.Core as core
import ECAgent.Environments as E
import ECAgent.Tags as Tags

NCPU = os.cpu_count() or 2


# --------------------------------------------------------------------------------------------------------------------
# Models used by the experiments (module level so that they can be pickled by reference)
# --------------------------------------------------------------------------------------------------------------------
class Stop(core.System):
    def execute(self):
        if self.model.systems.timestep + 1 >= self.model.life:
            self.model.complete()


class Col(C.Collector):
    """Records (collector id, a, b, life, timestep); sleeps a random time on step 0; may fail."""
    def collect(self):
        m = self.model
        if m.jitter and m.systems.timestep == 0:
            time.sleep(random.Random(os.urandom(4)).random() * m.jitter)
        if m.a == m.pos and m.where == 'run' and self.id == 'c':
            raise ValueError(f'boom {m.a}')
        self.records.append((self.id, m.a, m.b, m.life, m.systems.timestep))


class M(core.Model):
    def __init__(self, a=0, b=0, life=3, jitter=0.0, pos=-1, where='run'):
        super().__init__()
        self.a, self.b, self.life, self.jitter, self.pos, self.where = a, b, life, jitter, pos, where
        if a == pos and where == 'init':
            raise core.SystemNotFoundError(f'init {a}')
        self.systems.add_system(Col('c', self))
        self.systems.add_system(Col('d', self, priority=-2))
        self.systems.add_system(Col('cd', self, priority=-3))
        self.systems.add_system(Stop('s', self, priority=-5))
        if a == pos and where == 'lookup':
            self.systems.remove_system('c')


def expected(a_vals, b_vals, lifes, reps, mt, cols):
    out = []
    for _ in range(reps):
        for a in a_vals:
            for b in b_vals:
                for life in lifes:
                    n = min(max(life, 1), max(mt, 0))

                    def rec(cid):
                        return [(cid, a, b, life, t) for t in range(n)]
                    out.append(rec(cols) if isinstance(cols, str) else {c: rec(c) for c in cols})
    return out


class TwoArgError(Exception):
    """A perfectly ordinary user exception: two constructor arguments, a formatted message."""
    def __init__(self, agent_id, reason):
        self.agent_id, self.reason = agent_id, reason
        super().__init__(f'agent {agent_id}: {reason}')


class FailCol(C.Collector):
    def collect(self):
        m = self.model
        self.records.append((m.k, m.systems.timestep))
        if m.k == m.bad:
            if m.mode == 'twoarg':
                raise TwoArgError('a7', 'ran out of energy')
            if m.mode == 'sysexit':
                sys.exit(3)
            if m.mode == 'value':
                raise ValueError('boom')
            if m.mode == 'record_exc':
                self.records.append(TwoArgError('a7', 'handled and logged'))
            if m.mode == 'duptag':
                Tags.add_tag('NONE')


class FM(core.Model):
    def __init__(self, k=0, bad=-1, mode='value'):
        super().__init__()
        self.k, self.bad, self.mode = k, bad, mode
        self.systems.add_system(FailCol('c', self))


class Wolf(core.Agent):
    pass


class KindCol(C.Collector):
    def collect(self):
        self.records.append(repr(self.model.kind))


class KindModel(core.Model):
    def __init__(self, kind=None):
        super().__init__()
        self.kind = kind
        self.systems.add_system(KindCol('c', self))


class BagCol(C.Collector):
    def collect(self):
        self.records.append(list(self.model.bag))


class BagModel(core.Model):
    def __init__(self, bag=None, k=0):
        super().__init__()
        self.bag = bag
        self.bag.append(k)
        self.systems.add_system(BagCol('c', self))


class NoneCol(C.Collector):
    def __init__(self, id, model):
        super().__init__(id, model)
        if model.k == 1:
            self.records = None

    def collect(self):
        if self.records is not None:
            self.records.append(self.model.k)


class NoneModel(core.Model):
    def __init__(self, k=0):
        super().__init__()
        self.k = k
        self.systems.add_system(NoneCol('c', self))


class StrSub(str):
    pass


class PLSub(B.ParameterList):
    pass


class PkgErrSys(core.System):
    def execute(self):
        m = self.model
        if m.k != 1:
            return
        k = m.kind
        if k == 'anf':
            m.environment.get_agent('nope', True)
        if k == 'dup':
            m.environment.add_agent(core.Agent('a0', m))
        if k == 'cnf':
            m.environment.get_agent('a0').get_component(core.Component, True)
        if k == 'cellcnf':
            m.environment.remove_cell_component('zz')
        if k == 'snf':
            m.systems.remove_system('zz')
        if k == 'mce':
            m.complete()
            m.systems.execute_systems(throw_error=True)


def agent_id(agent):
    return agent.id


class PkgErrModel(core.Model):
    def __init__(self, k=0, kind=''):
        super().__init__()
        self.k, self.kind = k, kind
        self.environment = E.GridWorld(self, 8, 8)
        for i in range(20):
            self.environment.add_agent(core.Agent(f'a{i}', self), i % 8, i // 8)
        self.systems.add_system(PkgErrSys('s', self))
        self.systems.add_system(C.AgentCollector(self, agent_id, id='c'))


# --------------------------------------------------------------------------------------------------------------------
# Child-side experiments (may hang) -> print one JSON line
# --------------------------------------------------------------------------------------------------------------------
class Hang(BaseException):
    pass


ALARM_FIRED = []


def _alarm(*_):
    ALARM_FIRED.append(True)
    raise Hang()


def child(name):
    signal.signal(signal.SIGALRM, _alarm)
    out = {}
    try:
        if name.startswith('err:'):
            _, mode, procs = name.split(':')
            signal.alarm(8)
            r = B.batch_run(FM, {'k': [0, 1, 2, 3, 4, 5], 'bad': 2, 'mode': mode}, 'c', max_timesteps=1,
                            processes=int(procs))
            out = {'outcome': 'returned', 'n': len(r)}
        elif name.startswith('build:'):
            import resource
            resource.setrlimit(resource.RLIMIT_AS, (2 * 1024 ** 3, 2 * 1024 ** 3))
            what = name.split(':')[1]
            value = {'agent_class': Wolf, 'env_class': E.GridWorld, 'agent_instance': core.Agent('a', core.Model()),
                     'system_manager': core.Model().systems}[what]
            signal.setitimer(signal.ITIMER_REAL, 0.7)
            r = B.batch_run(KindModel, {'kind': value}, 'c', max_timesteps=1)
            out = {'outcome': 'returned', 'n': len(r)}
        elif name.startswith('spawn:'):
            import multiprocessing as mp
            mp.set_start_method(name.split(':')[1])
            signal.alarm(100)
            r = B.batch_run(M, {'a': list(range(8)), 'jitter': 0.01}, ['c', 'd'], max_timesteps=2, processes=3,
                            repetitions=2)
            exp = expected(list(range(8)), [0], [3], 2, 2, ['c', 'd'])
            ok = sorted(map(repr, r)) == sorted(map(repr, exp))
            errs = []
            for pos in range(4):
                try:
                    B.batch_run(M, {'a': list(range(4)), 'pos': pos, 'jitter': 0.01}, 'c', max_timesteps=2, processes=3)
                    errs.append(f'dropped {pos}')
                except ValueError as e:
                    if str(e) != f'boom {pos}':
                        errs.append(repr(e))
            out = {'outcome': 'returned', 'ok': ok and not errs, 'errs': errs}
    except Hang:
        out = {'outcome': 'hang'}
    except MemoryError:
        out = {'outcome': 'hang', 'detail': 'MemoryError (unbounded growth)'}
    except BaseException as e:  # noqa
        out = {'outcome': 'raised', 'type': type(e).__name__, 'msg': str(e)[:300]}
        if ALARM_FIRED:  # the alarm interrupted batch_run; leaving the 'with Pool' block of a broken pool raised this
            out = {'outcome': 'hang', 'detail': f'after the alarm, Pool.terminate() raised {type(e).__name__}: {e}'}
    print('@@' + json.dumps(out))
    sys.stdout.flush()
    os._exit(0)  # never run Pool.terminate() of a broken pool


def run_child(name, timeout=150):
    try:
        p = subprocess.run([sys.executable, os.path.abspath(__file__), '--child', name], capture_output=True, text=True,
                           timeout=timeout)
    except subprocess.TimeoutExpired:
        return {'outcome': 'hang', 'detail': 'child killed by the parent timeout'}
    for line in p.stdout.splitlines():
        if line.startswith('@@'):
            return json.loads(line[2:])
    return {'outcome': 'crashed', 'detail': (p.stdout + p.stderr)[-300:]}


# --------------------------------------------------------------------------------------------------------------------
# Experiments.  Each returns a list of (tag, text); tag in OK / VIOLATION / NOTE
# --------------------------------------------------------------------------------------------------------------------
def exp_conformance():
    """Random grids x repetitions x step limits x collector selection x process counts with jittered durations."""
    rng = random.Random(2024)
    bad = []
    for trial in range(48):
        a_vals = list(range(rng.randint(1, 3)))
        b_vals = [rng.choice(['x', 'y', None, 0, '', 0.0, False]) for _ in range(rng.randint(1, 3))]
        lifes = rng.sample([1, 2, 3, 5], rng.randint(1, 2))
        reps = rng.randint(1, 3)
        mt = rng.choice([0, 1, 2, 3, 4, 5, 6, sys.maxsize])
        cols = rng.choice(['c', 'd', ['c'], ['c', 'd'], ('d', 'c'), {'cd': 1}])
        procs = (trial % NCPU) + 1
        got = B.batch_run(M, {'a': a_vals, 'b': b_vals, 'life': lifes, 'jitter': 0.01}, cols, processes=procs,
                          max_timesteps=mt, repetitions=reps)
        exp = expected(a_vals, b_vals, lifes, reps, mt, cols)
        ok = got == exp if procs == 1 else sorted(map(repr, got)) == sorted(map(repr, exp))
        if not ok:
            bad.append((trial, procs, mt, cols))
    if bad:
        return [('VIOLATION', f'conformance mismatches (trial, processes, max_timesteps, collectors): {bad}')]
    return [('OK', f'48 random batches, processes 1..{NCPU}, jittered durations: every execution exactly once, own '
                   f'records, step limit below/at/above completion respected, product order with 1 process')]


def exp_fail_positions():
    bad = []
    n = 5
    for procs in range(1, NCPU + 1):
        for where in ('run', 'init', 'lookup'):
            for pos in range(n):
                try:
                    got = B.batch_run(M, {'a': list(range(n)), 'pos': pos, 'where': where, 'jitter': 0.005}, 'c',
                                      processes=procs, max_timesteps=2)
                    bad.append(('dropped', procs, where, pos, len(got)))
                except (ValueError, core.SystemNotFoundError) as e:
                    if str(pos) not in str(e):
                        bad.append(('wrong error', procs, where, pos, repr(e)))
                except AttributeError:
                    if where != 'lookup':
                        bad.append(('wrong error', procs, where, pos))
    if bad:
        return [('VIOLATION', f'failing execution not reported: {bad[:5]}')]
    return [('OK', f'ordinary exception (in __init__, in a timestep, in the collector lookup) injected at each of '
                   f'{n} positions for processes 1..{NCPU}: always reaches the caller')]


def exp_oneshot_collectors():
    res = []
    full = B.batch_run(M, {'a': [1, 2, 3]}, ['c', 'd'], max_timesteps=1)
    for label, make in (("(n for n in ['c', 'd'])", lambda: (n for n in ['c', 'd'])),
                        ("iter(['c', 'd'])", lambda: iter(['c', 'd'])),
                        ("map(str, ['c', 'd'])", lambda: map(str, ['c', 'd']))):
        got = B.batch_run(M, {'a': [1, 2, 3]}, make(), max_timesteps=1)
        if got != full:
            res.append(('VIOLATION',
                        f"collectors given as a one-shot Iterable ({label}) with processes=1: only the first execution "
                        f"returns its records, every later one returns an empty dict.\n"
                        f"      repro: batch_run(M, {{'a': [1, 2, 3]}}, collectors={label}, "
                        f"max_timesteps=1)\n      got     : {got}\n      expected: {full}"))
        else:
            res.append(('OK', f'one-shot collectors iterable ({label})'))
    got = B.batch_run(M, {'a': [1, 2, 3]}, iter(['c', 'd']), max_timesteps=1, processes=2)
    same = sorted(map(repr, got)) == sorted(map(repr, full))
    res.append(('OK' if same else 'VIOLATION',
                f'the same iter(list) with processes=2 is {"complete (so the outcome depends on the process count)" if same else "also wrong"}'))
    return res


def exp_error_transport():
    res = []
    for mode, label in (('value', 'ValueError'), ('twoarg', 'user exception with a 2-argument constructor'),
                        ('sysexit', 'sys.exit() inside a timestep'),
                        ('record_exc', 'collector records that contain a 2-argument exception instance')):
        for procs in (1, 2):
            r = run_child(f'err:{mode}:{procs}')
            desc = f'{label}, processes={procs}: {r}'
            if mode == 'record_exc':
                good = r['outcome'] == 'returned' and r.get('n') == 6
            else:
                good = r['outcome'] == 'raised' and r.get('type') in ('ValueError', 'TwoArgError', 'SystemExit')
            if good:
                res.append(('OK', desc))
            elif r['outcome'] == 'hang':
                res.append(('VIOLATION',
                            f"{label}, processes={procs}: batch_run never returns and never raises (alarm after 8 s); "
                            f"with processes=1 the same batch raises/returns immediately.\n"
                            f"      repro: batch_run(FM, {{'k': [0,1,2,3,4,5], 'bad': 2, 'mode': '{mode}'}}, 'c', "
                            f"max_timesteps=1, processes=2)"))
            else:
                res.append(('NOTE', desc))
    return res


def exp_build_hang():
    res = []
    for what, label, src in (('agent_class', 'an Agent subclass (class Wolf(Agent))', 'Wolf'),
                             ('env_class', 'the GridWorld class', 'ECAgent.Environments.GridWorld'),
                             ('agent_instance', 'an Agent instance', "Agent('a', Model())"),
                             ('system_manager', 'a SystemManager', 'Model().systems')):
        r = run_child(f'build:{what}', timeout=60)
        if r['outcome'] == 'returned' and r.get('n') == 1:
            res.append(('OK', f'single parameter value = {label}'))
        elif r['outcome'] == 'hang':
            res.append(('VIOLATION',
                        f"single (non-list) parameter value = {label}: ParameterList.build() loops forever (list grows "
                        f"without bound), no model is ever executed.\n"
                        f"      repro: batch_run(KindModel, {{'kind': {src}}}, 'c', max_timesteps=1)   "
                        f"# [{src}] in a list works; ParameterList({{'kind': {src}}}).build() alone hangs too"))
        else:
            res.append(('NOTE', f'single parameter value = {label}: {r}'))
    # An Environment instance is silently expanded into its agents (none -> the whole batch is empty)
    env = core.Model().environment
    got = B.batch_run(KindModel, {'kind': env}, 'c', max_timesteps=1)
    if len(got) != 1:
        res.append(('VIOLATION',
                    f"single parameter value = an (empty) Environment instance: the value is iterated (its agents), so "
                    f"the batch silently runs {len(got)} executions instead of 1.\n"
                    f"      repro: batch_run(KindModel, {{'kind': Model().environment}}, 'c', max_timesteps=1) -> {got}"))
    else:
        res.append(('OK', 'single parameter value = Environment instance'))
    got = B.batch_run(KindModel, {'kind': [Wolf, core.Agent]}, 'c', max_timesteps=1)
    res.append(('OK' if len(got) == 2 else 'VIOLATION', f'list of Agent classes as parameter values -> {len(got)} runs'))
    for v in (core.Model, core.System, core.Component, core.Model(), None, 0, 0.0, -0.0, False, '', 10 ** 40):
        got = B.batch_run(KindModel, {'kind': v}, 'c', max_timesteps=1)
        if got != [[repr(v)]]:
            res.append(('VIOLATION', f'single parameter value {v!r} -> {got}'))
    res.append(('OK', 'single falsy / huge / class / Model-instance values are passed through unchanged, once'))
    return res


def exp_str_subclass():
    import numpy as np
    res = []
    ref = B.batch_run(M, {'a': [1]}, 'cd', max_timesteps=1)
    for label, name, src in (('str subclass', StrSub('cd'), "StrSub('cd')"),
                             ('numpy.str_', np.array(['cd'])[0], "numpy.array(['cd'])[0]")):
        try:
            got = B.batch_run(M, {'a': [1]}, name, max_timesteps=1)
        except Exception as e:  # noqa
            got = repr(e)
        if got != ref:
            res.append(('VIOLATION',
                        f"one collector name given as a {label} ('cd'): the name is iterated character by character and "
                        f"the records of the OTHER collectors 'c' and 'd' are returned (as a dict).\n"
                        f"      repro: batch_run(M, {{'a': [1]}}, collectors={src}, max_timesteps=1)\n"
                        f"      got     : {got}\n      expected: {ref}"))
        else:
            res.append(('OK', f'collector name as {label}'))
    for label, value, src in (('str subclass', StrSub('moore'), "StrSub('moore')"),
                              ('numpy.str_', np.array(['moore'])[0], "numpy.array(['moore'])[0]")):
        got = B.batch_run(KindModel, {'kind': value}, 'c', max_timesteps=1)
        if len(got) != 1:
            res.append(('VIOLATION',
                        f"single parameter value given as a {label} ('moore'): expanded into its characters -> "
                        f"{len(got)} executions ('o' twice) instead of 1.\n"
                        f"      repro: batch_run(KindModel, {{'kind': {src}}}, 'c', max_timesteps=1)"
                        f" -> {got}"))
        else:
            res.append(('OK', f'parameter value as {label}'))
    try:
        got = B.batch_run(M, {'a': [1]}, [StrSub('c')], max_timesteps=1)
        res.append(('OK' if got == [{'c': [('c', 1, 0, 3, 0)]}] else 'NOTE', f'list of str-subclass names -> {got}'))
    except Exception as e:  # noqa
        res.append(('NOTE', f"collectors=[StrSub('c')] raises {e!r} (loud, SystemManager.__getitem__ uses type(item) == "
                            f"str) - an error, nothing lost silently"))
    return res


def exp_notes():
    res = []
    p1 = B.batch_run(BagModel, {'bag': [[]], 'k': [1, 2]}, 'c', max_timesteps=1, repetitions=2)
    p2 = B.batch_run(BagModel, {'bag': [[]], 'k': [1, 2]}, 'c', max_timesteps=1, repetitions=2, processes=2)
    if sorted(map(repr, p1)) != sorted(map(repr, p2)):
        res.append(('NOTE', f"a mutable parameter value that the model mutates is shared by all executions with "
                            f"processes=1 (and copied per execution with processes>1): processes=1 -> {p1}, "
                            f"processes=2 -> {sorted(p2)}.  Arguable (the model mutates its input); not counted."))
    got = B.batch_run(NoneModel, {'k': [0, 1, 2]}, 'c', max_timesteps=1)
    if len(got) != 3:
        res.append(('NOTE', f"a collector whose .records is None is dropped from the result list (positions shift): "
                            f"{got}.  Contrived; not counted."))
    try:
        B.batch_run(M, PLSub({'a': [1, 2]}), 'c', max_timesteps=1)
        res.append(('OK', 'ParameterList subclass accepted'))
    except TypeError as e:
        res.append(('NOTE', f"a ParameterList SUBCLASS is rejected with {e!r} (type(parameters) == ParameterList). Loud "
                            f"error, nothing lost; not counted."))
    got = B.batch_run(M, {'a': [1], 'life': 9}, 'c', max_timesteps=2.5)
    res.append(('NOTE', f"max_timesteps=2.5 runs {len(got[0])} steps (timestep ends at 3 > 2.5). The parameter is "
                        f"typed int, so a fractional limit is outside the scope; not counted."))
    r = run_child('err:duptag:2')
    res.append(('NOTE', f"Tags.DuplicateTagError / TagNotFoundError have no __reduce__: across a process boundary the "
                        f"error still arrives with the right type but a doubled message and a wrong .tag_name: {r}. "
                        f"The error is not dropped; not counted."))
    return res


def exp_pkg_exceptions():
    bad = []
    for kind, exc in (('anf', core.AgentNotFoundError), ('dup', core.DuplicateAgentError),
                      ('cnf', core.ComponentNotFoundError), ('cellcnf', core.ComponentNotFoundError),
                      ('snf', core.SystemNotFoundError), ('mce', core.ModelCompleteError)):
        for procs in (1, 3):
            signal.alarm(30)
            try:
                B.batch_run(PkgErrModel, {'k': [0, 1, 2], 'kind': kind}, 'c', max_timesteps=1, processes=procs)
                bad.append((kind, procs, 'dropped'))
            except exc:
                pass
            except Hang:
                bad.append((kind, procs, 'hang'))
            except Exception as e:  # noqa
                bad.append((kind, procs, repr(e)))
            signal.alarm(0)
    if bad:
        return [('VIOLATION', f'package exception not transported: {bad}')]
    return [('OK', 'every ECAgent.Core exception class raised inside a GridWorld model reaches the caller with its own '
                   'type for processes 1 and 3')]


def exp_misc():
    import numpy as np
    res = []
    checks = {
        'empty parameter dict -> one default run': len(B.batch_run(M, {}, 'c', max_timesteps=1)) == 1,
        'empty value list -> no run': B.batch_run(M, {'a': []}, 'c', max_timesteps=1) == [],
        'empty value list, processes=2 -> no run': B.batch_run(M, {'a': []}, 'c', max_timesteps=1, processes=2) == [],
        'repetitions=0 / True / numpy int': (B.batch_run(M, {'a': [1]}, 'c', repetitions=0) == [] and
                                              len(B.batch_run(M, {'a': [1]}, 'c', repetitions=True)) == 1 and
                                              len(B.batch_run(M, {'a': [1, 2]}, 'c', repetitions=np.int64(2))) == 4),
        'max_timesteps 0 / -1 / numpy / huge / inf': (
            B.batch_run(M, {'a': [1]}, 'c', max_timesteps=0) == [[]] and
            B.batch_run(M, {'a': [1]}, 'c', max_timesteps=-1) == [[]] and
            len(B.batch_run(M, {'a': [1], 'life': 9}, 'c', max_timesteps=np.int64(2))[0]) == 2 and
            len(B.batch_run(M, {'a': [1]}, 'c', max_timesteps=10 ** 30)[0]) == 3 and
            len(B.batch_run(M, {'a': [1]}, 'c', max_timesteps=float('inf'))[0]) == 3),
        'processes True / 1.0 / None / numpy 2': (
            len(B.batch_run(M, {'a': [1, 2]}, 'c', processes=True, max_timesteps=1)) == 2 and
            len(B.batch_run(M, {'a': [1, 2]}, 'c', processes=1.0, max_timesteps=1)) == 2 and
            len(B.batch_run(M, {'a': [1, 2]}, 'c', processes=None, max_timesteps=1)) == 2 and
            len(B.batch_run(M, {'a': [1, 2]}, 'c', processes=np.int64(2), max_timesteps=1)) == 2),
        'duplicate / set / dict collector selections': (
            B.batch_run(M, {'a': [1]}, ['c', 'c'], max_timesteps=1) == [{'c': [('c', 1, 0, 3, 0)]}] and
            B.batch_run(M, {'a': [1]}, {'c'}, max_timesteps=1) == [{'c': [('c', 1, 0, 3, 0)]}]),
        'generator parameter values with repetitions': len(
            B.batch_run(M, {'a': (i for i in range(2))}, 'c', max_timesteps=1, repetitions=2)) == 4,
        '2000 executions on 4 processes': sorted(
            x[0][1] for x in B.batch_run(M, {'a': range(2000)}, 'c', max_timesteps=1, processes=4)) == list(range(2000)),
    }
    for k, v in checks.items():
        res.append(('OK' if v else 'VIOLATION', k))
    for method in ('spawn', 'forkserver'):
        r = run_child(f'spawn:{method}', timeout=200)
        res.append(('OK' if r.get('ok') else 'VIOLATION', f'start method {method}: {r}'))
    return res


EXPERIMENTS = [
    ('1. conformance over grid x repetitions x step limit x collectors x processes', exp_conformance),
    ('2. failing execution at every position', exp_fail_positions),
    ('3. collectors given as a one-shot Iterable', exp_oneshot_collectors),
    ('4. errors that do not survive the process boundary', exp_error_transport),
    ('5. package objects / classes as single parameter values', exp_build_hang),
    ('6. str subclasses (numpy.str_) as collector name / parameter value', exp_str_subclass),
    ('7. package exception classes across processes', exp_pkg_exceptions),
    ('8. falsy / numpy / huge arguments, big batch, spawn + forkserver', exp_misc),
    ('9. observations that are not counted', exp_notes),
]


def main():
    signal.signal(signal.SIGALRM, _alarm)
    violations = 0
    findings = []
    for title, fn in EXPERIMENTS:
        print(f'== {title}')
        try:
            results = fn()
        except BaseException as e:  # noqa
            results = [('NOTE', f'experiment crashed: {e!r}')]
        for tag, text in results:
            print(f'  [{tag}] {text}')
            violations += tag == 'VIOLATION'
            if tag == 'VIOLATION' and title not in findings:
                findings.append(title)
    print(f'\n{violations} violating observation(s) in {len(findings)} distinct finding(s):')
    for title in findings:
        print(f'  - {title}')
    return 1 if violations else 0


if __name__ == '__main__':
    if len(sys.argv) == 3 and sys.argv[1] == '--child':
        child(sys.argv[2])
    sys.exit(main())
