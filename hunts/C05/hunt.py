#!/usr/bin/env python
"""Bug hunt for the property

    "Systems changing the system set mid-timestep never cause skips or reruns"

Run with:  cd /tmp/wt-C05-h && PYTHONPATH=/tmp/wt-C05-h /venv/bin/python hunt.py

Every experiment prints OK, VIOLATION (genuine, inside the stated scope) or NOTE (observed oddity that is outside
the stated scope / unspecified and therefore NOT counted).  Exit status is 1 iff at least one VIOLATION was found.

Only the public API of ECAgent is used (Model, System, SystemManager.add_system / remove_system / execute_systems,
System.clean_up, Model.execute, the documented attributes SystemManager.systems / execution_queue / timestep, the
Collectors and Batching.batch_run).
"""
import copy
import dataclasses
import decimal
import fractions
import functools
import itertools
import json
import os
import pickle
import random
import subprocess
import sys
import warnings

import ECAgent
from ECAgent.Core import Model, System, SystemManager, Agent, Environment, SystemNotFoundError
from ECAgent.Collectors import Collector, AgentCollector

HERE = os.path.dirname(os.path.abspath(__file__))


# ---------------------------------------------------------------------------------------------------------------------
# Oracle: a harness that keeps its own book of who is registered and what happened in a timestep
# ---------------------------------------------------------------------------------------------------------------------
class Harness:
    def __init__(self, model=None):
        self.model = model or Model()
        self.registered = {}  # id(obj) -> obj, what OUGHT to be registered right now
        self.step_events = []  # ('run'|'add'|'remove', obj) of the current timestep
        self.violations = []

    # -- all changes to the system set go through these so that the harness knows about them
    def add(self, s):
        self.model.systems.add_system(s)
        self.note_add(s)

    def remove(self, s):
        self.model.systems.remove_system(s.id)
        self.note_remove(s)

    def note_add(self, s):
        self.registered[id(s)] = s
        self.step_events.append(('add', s))

    def note_remove(self, s):
        del self.registered[id(s)]
        self.step_events.append(('remove', s))

    def ran(self, s):
        self.step_events.append(('run', s))

    @staticmethod
    def eligible(s, t):
        return s.start <= t <= s.end and (s.start - t) % s.frequency == 0

    def step(self, how='execute', check_completeness=True):
        t = self.model.systems.timestep
        at_start = list(self.registered.values())
        self.step_events = []
        if how == 'execute':
            self.model.execute()
        elif how == 'direct':
            self.model.systems.execute_systems()
        elif how == 'deprecated':
            with warnings.catch_warnings():
                warnings.simplefilter('ignore')
                self.model.systems.executeSystems()
        return self.check(t, at_start, check_completeness)

    def check(self, t, at_start, check_completeness=True):
        events = self.step_events
        runs = [e[1] for e in events if e[0] == 'run']
        touched = {id(e[1]) for e in events if e[0] in ('add', 'remove')}
        v = []
        # clause 1: no system runs more than once in the timestep
        for i in {id(r) for r in runs}:
            n = sum(1 for r in runs if id(r) == i)
            if n > 1:
                who = next(r for r in runs if id(r) == i)
                v.append(f't={t}: system {who.id!r} ran {n} times in one timestep')
        # clause 2: systems registered for the whole timestep run exactly once (if eligible) and in priority order
        whole = [s for s in at_start if id(s) not in touched]
        if check_completeness:
            for s in whole:
                n = sum(1 for r in runs if r is s)
                exp = 1 if self.eligible(s, t) else 0
                if n != exp:
                    v.append(f't={t}: system {s.id!r} (priority {s.priority!r}) stayed registered for the whole '
                             f'timestep but ran {n} times, expected {exp}')
        whole_ids = {id(w) for w in whole}
        wr = [r for r in runs if id(r) in whole_ids]
        for a, b in zip(wr, wr[1:]):
            if a.priority < b.priority:
                v.append(f't={t}: priority order broken: {a.id!r}({a.priority!r}) ran before {b.id!r}({b.priority!r})')
        # clause 3: a system that is not registered at the moment of its turn does not run
        reg = {id(s) for s in at_start}
        for kind, s in events:
            if kind == 'add':
                reg.add(id(s))
            elif kind == 'remove':
                reg.discard(id(s))
            elif id(s) not in reg:
                v.append(f't={t}: system {s.id!r} ran although it had been removed before its turn')
        # bookkeeping of the package agrees with the harness (a disagreement would produce skips/reruns later)
        q = self.model.systems.execution_queue
        if sorted(map(id, q)) != sorted(self.registered):
            v.append(f't={t}: execution_queue {[s.id for s in q]} differs from the registered set '
                     f'{[s.id for s in self.registered.values()]}')
        if sorted(map(id, self.model.systems.systems.values())) != sorted(self.registered):
            v.append(f't={t}: systems dict {list(self.model.systems.systems)} differs from the registered set '
                     f'{[s.id for s in self.registered.values()]}')
        for a, b in zip(q, q[1:]):
            if a.priority < b.priority:
                v.append(f't={t}: execution_queue is not in priority order after the timestep')
        self.violations += v
        return v


class S(System):
    """A system that reports to a Harness and runs a per-timestep script."""
    __slots__ = ['h', 'script']

    def __init__(self, id, h, priority=0, frequency=1, start=0, end=sys.maxsize, script=None):
        super().__init__(id, h.model, priority, frequency, start, end)
        self.h = h
        self.script = script if script is not None else {}

    def execute(self):
        self.h.ran(self)
        f = self.script.get(self.model.systems.timestep)
        if f:
            f(self)


class Always(dict):
    """script that performs the same action in every timestep"""

    def __init__(self, f):
        super().__init__()
        self.f = f

    def get(self, t, default=None):
        return self.f


# ---------------------------------------------------------------------------------------------------------------------
# Experiments
# ---------------------------------------------------------------------------------------------------------------------
def exhaustive_single_action(n_max=4):
    """every set of <= 4 systems with priorities in {0,1,2}; every actor position; actor removes itself (clean_up),
    any earlier / later system, or registers a system of lower/equal/higher priority; at timestep 0, 1 or 2"""
    bad = []
    count = 0
    for n in range(1, n_max + 1):
        for prios in itertools.product([0, 1, 2], repeat=n):
            for actor in range(n):
                actions = [('self', None)]
                actions += [('remove', j) for j in range(n) if j != actor]
                actions += [('add', p) for p in (-1, 0, 1, 2, 3)]
                for act in actions:
                    for t_act in (0, 1, 2):
                        h = Harness()
                        objs = [S(f's{i}', h, priority=p) for i, p in enumerate(prios)]

                        def do(me, act=act, h=h, objs=objs):
                            if act[0] == 'self':
                                me.clean_up()
                                h.note_remove(me)
                            elif act[0] == 'remove':
                                h.remove(objs[act[1]])
                            else:
                                h.add(S('new', h, priority=act[1]))

                        objs[actor].script = {t_act: do}
                        try:
                            for o in objs:
                                h.add(o)
                            for _ in range(4):
                                h.step()
                        except Exception as e:  # noqa
                            h.violations.append(f'unexpected {e!r}')
                        count += 1
                        if h.violations:
                            bad.append(f'priorities={prios} actor={actor} action={act} at t={t_act}: {h.violations[0]}')
    return count, bad


def fuzz_one(seed, steps=6):
    rnd = random.Random(seed)
    h = Harness()
    pool_removed = []
    prio_choices = rnd.choice([[0, 1, 2], [0], [-1, 0, 1, 5],
                               [0.5, 1, True, False, -0.0, 0, 2 ** 70, -2 ** 70, 1.5]])
    ids = itertools.count()

    def act(me):
        for _ in range(rnd.choice([0, 0, 1, 1, 2, 3])):
            r = rnd.random()
            regs = list(h.registered.values())
            if r < 0.35 and regs:
                tgt = rnd.choice(regs)
                h.remove(tgt)
                pool_removed.append(tgt)
            elif r < 0.45 and id(me) in h.registered:
                me.clean_up()
                h.note_remove(me)
                pool_removed.append(me)
            elif r < 0.6 and pool_removed:  # re-register an object that was removed earlier (maybe this timestep)
                s = pool_removed.pop(rnd.randrange(len(pool_removed)))
                if not any(x.id == s.id for x in h.registered.values()):
                    if rnd.random() < 0.5:
                        s.priority = rnd.choice(prio_choices)
                    h.add(s)
            elif r < 0.7 and regs:  # replace: remove X, register a different object under the same id
                tgt = rnd.choice(regs)
                h.remove(tgt)
                n = new_sys()
                n.id = tgt.id
                h.add(n)
            else:
                h.add(new_sys())

    def new_sys():
        kw = {}
        if rnd.random() < 0.3:
            kw = dict(frequency=rnd.choice([1, 2, 3]), start=rnd.choice([0, 1, 2]),
                      end=rnd.choice([2, 4, sys.maxsize]))
        return S(f'f{next(ids)}', h, priority=rnd.choice(prio_choices), script=Always(act), **kw)

    for _ in range(rnd.randint(0, 6)):
        h.add(new_sys())
    for _ in range(steps):
        h.step(rnd.choice(['execute', 'direct', 'deprecated']))
    return h.violations


def exp_exhaustive():
    count, bad = exhaustive_single_action()
    return ('VIOLATION' if bad else 'OK'), f'{count} configurations' + (': ' + bad[0] if bad else '')


def exp_fuzz():
    bad = []
    for seed in range(3000):
        try:
            v = fuzz_one(seed)
        except Exception as e:  # noqa
            v = [f'unexpected {e!r}']
        if v:
            bad.append(f'seed {seed}: {v[0]}')
    return ('VIOLATION' if bad else 'OK'), '3000 random multi-action runs (remove/self-remove/re-register same object/' \
                                           'replace under same id/register, frequency/start/end mixes, ' \
                                           'Model.execute / execute_systems / executeSystems)' + \
        (': ' + bad[0] if bad else '')


def exp_oracle_sensitivity():
    """the oracle must flag the pre-fix scheduler (iteration over the live queue); otherwise the OKs mean nothing"""
    def old_execute_systems(self, throw_error=False):
        for s in self.execution_queue:
            if not self.model.is_running():
                break
            if s.start <= self.timestep <= s.end and (s.start - self.timestep) % s.frequency == 0:
                s.execute()
        self.timestep += 1

    orig = SystemManager.execute_systems
    SystemManager.execute_systems = old_execute_systems  # monkeypatch in THIS process only, package file untouched
    try:
        count, bad = exhaustive_single_action(3)
        nb = 0
        for seed in range(200):
            try:
                nb += bool(fuzz_one(seed))
            except Exception:  # noqa
                nb += 1
    finally:
        SystemManager.execute_systems = orig
    ok = len(bad) > 0 and nb > 0
    return ('OK' if ok else 'NOTE'), f'live-queue scheduler flagged in {len(bad)}/{count} exhaustive configs and ' \
                                     f'{nb}/200 fuzz seeds (oracle is sensitive)'


def exp_ids():
    """falsy ids, non-str ids, str subclasses, NaN, case-insensitive str subclass, huge ints"""
    class SS(str):
        pass

    class CI(str):
        def __hash__(self):
            return hash(self.lower())

        def __eq__(self, o):
            return self.lower() == str(o).lower()

    nan = float('nan')
    bad = []
    for ids in [['', 'a', 'b'], [0, 1, 2], [0.0, 'x', None], [False, 'y', ()], [SS('a'), SS('b'), SS('')],
                [nan, 'n', 'm'], [(1, 2), frozenset(), b''], [CI('A'), CI('b'), CI('C')], [-0.0, 'q', 2 ** 100]]:
        for actor in range(3):
            for target in range(3):
                for kind in ('remove', 'replace'):
                    h = Harness()
                    objs = [S(i, h, priority=3 - k) for k, i in enumerate(ids)]

                    def do(me, h=h, objs=objs, target=target, kind=kind):
                        h.remove(objs[target])
                        if kind == 'replace':
                            h.add(S(objs[target].id, h, priority=1))

                    objs[actor].script = {1: do}
                    try:
                        for o in objs:
                            h.add(o)
                        for _ in range(3):
                            h.step()
                    except Exception as e:  # noqa
                        h.violations.append(f'unexpected {e!r}')
                    if h.violations:
                        bad.append(f'ids={ids!r} actor={actor} target={target} {kind}: {h.violations[0]}')
    return ('VIOLATION' if bad else 'OK'), 'falsy / non-str / str-subclass / NaN ids' + (': ' + bad[0] if bad else '')


def exp_falsy_systems():
    class F(S):
        def __len__(self):
            return 0

    class B(S):
        def __bool__(self):
            return False

    bad = []
    for cls in (F, B):
        for actor in range(3):
            for target in range(3):
                for kind in ('remove', 'add'):
                    h = Harness()
                    objs = [cls(f's{k}', h, priority=[2, 1, 1][k]) for k in range(3)]

                    def do(me, h=h, objs=objs, target=target, kind=kind, cls=cls):
                        if kind == 'remove':
                            h.remove(objs[target])
                        else:
                            h.add(cls('n', h, priority=target))

                    objs[actor].script = {1: do}
                    for o in objs:
                        h.add(o)
                    for _ in range(3):
                        h.step()
                    if h.violations:
                        bad.append(f'{cls.__name__} actor={actor} target={target} {kind}: {h.violations[0]}')
    return ('VIOLATION' if bad else 'OK'), 'systems with __len__()==0 / __bool__()==False' + \
        (': ' + bad[0] if bad else '')


def exp_priority_types():
    try:
        import numpy as np
        np_sets = [
            [np.int64(2), np.float32(1.5), np.int8(1), np.bool_(True), np.uint64(0)],
            [np.float64('inf'), -np.inf, 0, 5],
            [np.uint64(2 ** 64 - 1), -1, np.int64(-5), 2 ** 64],
        ]
    except ImportError:  # pragma: no cover
        np_sets = []
    sets = np_sets + [
        [True, False, 1, 0, 1.0, -0.0, 0.0],
        [2 ** 200, float(2 ** 63), 2 ** 63 + 1, -2 ** 200, 1e308],
        [fractions.Fraction(1, 3), decimal.Decimal('0.3'), 0.3, 1],
        ['b', 'a', 'c', 'aa'],
    ]
    bad = []
    for ps in sets:
        for actor in range(len(ps)):
            for newp in ps:
                for kind in ('add', 'remove_next', 'self'):
                    h = Harness()
                    objs = [S(f's{k}', h, priority=p) for k, p in enumerate(ps)]

                    def do(me, h=h, objs=objs, kind=kind, newp=newp, actor=actor):
                        if kind == 'add':
                            h.add(S('n', h, priority=newp))
                        elif kind == 'self':
                            me.clean_up()
                            h.note_remove(me)
                        else:
                            h.remove(objs[(actor + 1) % len(objs)])

                    objs[actor].script = {1: do}
                    try:
                        for o in objs:
                            h.add(o)
                        for _ in range(3):
                            h.step()
                    except Exception as e:  # noqa
                        h.violations.append(f'unexpected {e!r}')
                    if h.violations:
                        bad.append(f'priorities={ps!r} actor={actor} new={newp!r} {kind}: {h.violations[0]}')
    return ('VIOLATION' if bad else 'OK'), 'bool/int/float/-0.0/huge int/inf/Fraction/Decimal/numpy/str priorities' + \
        (': ' + bad[0] if bad else '')


def exp_collectors():
    model = Model()
    h = Harness(model)

    class C(Collector):
        def collect(self):
            h.ran(self)
            self.records.append(self.model.systems.timestep)
            if self.model.systems.timestep == 1:
                self.clean_up()
                h.note_remove(self)

    class AC(AgentCollector):
        def collect(self):
            h.ran(self)
            super().collect()

    c1, c2, c3 = C('c1', model), AC(model, lambda a: 1, id='c2'), C('c3', model)
    for x in (c1, c2, c3, S('s', h, priority=0)):
        h.add(x)
    model.environment.add_agent(Agent('a', model))
    for _ in range(4):
        h.step()
    ok = not h.violations and c1.records == [0, 1] and c3.records == [0, 1] and len(c2.records) == 4
    return ('OK' if ok else 'VIOLATION'), 'Collectors removing themselves (clean_up) next to other collectors' + \
        ('' if ok else f': {h.violations} {c1.records} {c3.records} {len(c2.records)}')


def exp_nested_models():
    """a system of `outer` steps `inner`; a system of `inner` removes / registers systems of `outer`, i.e. the set of
    the model whose timestep is in progress is changed from code that belongs to a different model"""
    outer, inner = Harness(), Harness()
    o = [S(f'o{k}', outer, priority=3 - k) for k in range(4)]
    o[1].script = Always(lambda me: inner.step())
    i = [S(f'i{k}', inner, priority=3 - k) for k in range(3)]

    def meddle(me):
        t = inner.model.systems.timestep
        if t == 0:
            outer.remove(o[2])  # a later system of outer
        if t == 1:
            outer.remove(o[0])  # an earlier system of outer
        if t == 2:
            outer.add(S('hi', outer, priority=99))
            outer.remove(o[1])  # the very system that is stepping us

    i[1].script = Always(meddle)
    for x in o:
        outer.add(x)
    for x in i:
        inner.add(x)
    for _ in range(4):
        outer.step()
    v = outer.violations + inner.violations
    return ('VIOLATION' if v else 'OK'), 'two models, inner model stepped from inside outer timestep and changing ' \
                                         'outer\'s system set' + (': ' + v[0] if v else '')


def exp_shared_system_object():
    """one System object registered with two models at the same time (its .model is model a)"""
    log = []
    a, b = Model(), Model()

    class L(System):
        def execute(self):
            log.append((self.id,))

    shared = L('shared', a, priority=1)
    a.systems.add_system(shared)
    b.systems.add_system(shared)

    class R(System):
        def execute(self):
            log.append((self.id,))
            if b.systems.timestep == 1:
                b.systems.remove_system('shared')

    b.systems.add_system(R('r', b, priority=2))
    a.systems.add_system(L('y', a, priority=2))
    trace = []
    for _ in range(3):
        for m, name in ((b, 'b'), (a, 'a')):
            del log[:]
            m.execute()
            trace.append((name, [x[0] for x in log]))
    exp = [('b', ['r', 'shared']), ('a', ['y', 'shared']), ('b', ['r']), ('a', ['y', 'shared']), ('b', ['r']),
           ('a', ['y', 'shared'])]
    return ('OK' if trace == exp else 'VIOLATION'), 'one System object registered with two models, removed from one ' \
                                                    'mid-timestep' + ('' if trace == exp else f': {trace}')


def exp_complete_mid_timestep():
    h = Harness()
    o = [S(f'o{k}', h, priority=3 - k) for k in range(4)]

    def act(me):
        h.remove(o[2])
        h.model.complete()

    o[1].script = {1: act}
    for x in o:
        h.add(x)
    for _ in range(3):
        h.step(check_completeness=False)  # a completed model stops the timestep by design; only reruns / removed-runs
    return ('VIOLATION' if h.violations else 'OK'), 'removal combined with model.complete() in the same timestep ' \
                                                    '(only rerun / removed-runs clauses checked)' + \
        (': ' + h.violations[0] if h.violations else '')


def exp_many_systems():
    h = Harness()
    base = [S(f'b{k}', h, priority=k % 7) for k in range(200)]

    def act(me):
        for k in range(0, 200, 3):
            if id(base[k]) in h.registered and base[k] is not me:
                h.remove(base[k])
        for k in range(300):
            h.add(S(f'n{k}', h, priority=k % 11 - 2))

    def act2(me):
        for s in list(h.registered.values()):
            h.remove(s)

    base[100].script = {1: act}
    base[5].script = {3: act2}
    for x in base:
        h.add(x)
    for _ in range(5):
        h.step()
    ok = not h.violations and len(h.registered) == 0
    return ('OK' if ok else 'VIOLATION'), '200 systems, one removes 67 and registers 300, later one removes all ' \
                                          'including itself' + ('' if ok else ': ' + str(h.violations[:1]))


def exp_deprecated_aliases_and_env_swap():
    h = Harness()
    o = [S(f'o{k}', h, priority=3 - k) for k in range(4)]

    def act(me):
        with warnings.catch_warnings():
            warnings.simplefilter('ignore')
            h.model.set_environment(Environment(h.model, id='E2'))
            h.model.systems.removeSystem('o2')
            h.note_remove(o[2])
            n = S('n', h, priority=10)
            h.model.systems.addSystem(n)
            h.note_add(n)

    o[1].script = {1: act}
    for x in o:
        h.add(x)
    for _ in range(3):
        h.step('deprecated')
    return ('VIOLATION' if h.violations else 'OK'), 'deprecated addSystem/removeSystem/executeSystems aliases and ' \
                                                    'environment replaced in the same timestep' + \
        (': ' + h.violations[0] if h.violations else '')


def exp_copy_and_pickle_mid_timestep():
    """deep copy / pickle of a model taken from INSIDE a timestep right after a change of the set"""
    snapshots = {}

    class PS(System):  # picklable (module level is not needed for deepcopy; for pickle we use copy.deepcopy only)
        def execute(self):
            self.model.trace.append((self.model.systems.timestep, self.id))
            if self.id == 'p1' and self.model.systems.timestep == 1 and 'c' not in snapshots:
                self.model.systems.remove_system('p2')
                self.model.systems.add_system(PS('p9', self.model, priority=9))
                snapshots['c'] = copy.deepcopy(self.model)

    class M(Model):
        __slots__ = ['trace']

        def __init__(self):
            super().__init__()
            self.trace = []

    m = M()
    for k in range(4):
        m.systems.add_system(PS(f'p{k}', m, priority=4 - k))
    m.execute(3)
    c = snapshots['c']
    del c.trace[:]
    c.execute(2)
    exp_c = [(1, 'p9'), (1, 'p0'), (1, 'p1'), (1, 'p3'), (2, 'p9'), (2, 'p0'), (2, 'p1'), (2, 'p3')]
    exp_m = [(0, 'p0'), (0, 'p1'), (0, 'p2'), (0, 'p3'), (1, 'p0'), (1, 'p1'), (1, 'p3'),
             (2, 'p9'), (2, 'p0'), (2, 'p1'), (2, 'p3')]
    ok = c.trace == exp_c and m.trace == exp_m
    return ('OK' if ok else 'VIOLATION'), 'deepcopy of the model from inside a timestep after a set change; copy and ' \
                                          'original both keep stepping correctly' + \
        ('' if ok else f': copy={c.trace} orig={m.trace}')


# --- module level classes for multiprocessing / hash seed children --------------------------------------------------
class TraceCollector(Collector):
    def __init__(self, model):
        super().__init__('trace', model, priority=-100)

    def collect(self):
        pass


class BSys(System):
    def __init__(self, id, model, priority, script=None):
        super().__init__(id, model, priority)
        self.script = script

    def execute(self):
        t = self.model.systems.timestep
        self.model.systems['trace'].records.append((t, self.id))
        if self.script:
            self.script(self, t)


def _b_script(me, t):
    sm = me.model.systems
    if t == 1:
        sm.remove_system('s3')  # later
        sm.add_system(BSys('hi', me.model, 50))  # higher
    if t == 2:
        sm.remove_system('s0')  # earlier
        sm.add_system(BSys('eq', me.model, me.priority))  # equal
        sm.add_system(BSys('', me.model, -5))  # lower, falsy id
    if t == 3:
        me.clean_up()  # itself
    if t == 1 + me.model.variant:
        sm.add_system(BSys(f'v{me.model.variant}', me.model, me.model.variant))


class BModel(Model):
    __slots__ = ['variant']

    def __init__(self, variant=0):
        super().__init__()
        self.variant = variant
        self.systems.add_system(TraceCollector(self))
        for k in range(5):
            self.systems.add_system(BSys(f's{k}', self, 5 - k, _b_script if k == 2 else None))


def _expected_btrace(variant):
    """independent reference scheduler: sorted by (-priority, registration order), new systems start next timestep"""
    reg = []  # (priority, seq, id)
    seq = itertools.count()
    for k in range(5):
        reg.append((5 - k, next(seq), f's{k}'))
    out = []
    for t in range(6):
        order = sorted(reg, key=lambda r: (-r[0], r[1]))
        removed = set()
        for p, _, i in order:
            if i in removed:
                continue
            out.append((t, i))
            if i == 's2':
                if t == 1:
                    removed.add('s3')
                    reg.append((50, next(seq), 'hi'))
                if t == 2:
                    removed.add('s0')
                    reg.append((p, next(seq), 'eq'))
                    reg.append((-5, next(seq), ''))
                if t == 3:
                    removed.add('s2')
                if t == 1 + variant:
                    reg.append((variant, next(seq), f'v{variant}'))
        reg = [r for r in reg if r[2] not in removed]
    return out


def child_batch():
    from ECAgent.Batching import batch_run
    variants = [0, 1, 2, 3]
    serial = batch_run(BModel, {'variant': variants}, collectors='trace', processes=1, max_timesteps=6)
    par = batch_run(BModel, {'variant': variants}, collectors='trace', processes=3, max_timesteps=6, repetitions=2)
    exp = [_expected_btrace(v) for v in variants]
    norm = lambda rs: sorted([[list(x) for x in r] for r in rs])  # noqa
    ok_serial = norm(serial) == norm(exp)
    ok_par = norm(par) == norm(exp + exp)
    print(json.dumps({'ok_serial': ok_serial, 'ok_par': ok_par, 'n_par': len(par)}))


def child_trace():
    m = BModel(2)
    m.execute(6)
    print(json.dumps(m.systems['trace'].records))


def _run_child(arg, env_extra=None, timeout=120):
    env = dict(os.environ)
    env['PYTHONPATH'] = HERE + os.pathsep + env.get('PYTHONPATH', '')
    env.update(env_extra or {})
    p = subprocess.run([sys.executable, os.path.abspath(__file__), arg], capture_output=True, text=True,
                       timeout=timeout, env=env, cwd=HERE)
    if p.returncode != 0:
        raise RuntimeError(f'child {arg} failed: {p.stderr[-500:]}')
    return json.loads(p.stdout.strip().splitlines()[-1])


def exp_multiprocessing():
    try:
        r = _run_child('--child-batch')
    except subprocess.TimeoutExpired:
        return 'NOTE', 'batch_run(processes=3) child timed out after 120 s (not attributable to this property)'
    ok = r['ok_serial'] and r['ok_par'] and r['n_par'] == 8
    return ('OK' if ok else 'VIOLATION'), f'batch_run serial and processes=3 (real worker processes) of a model whose ' \
                                          f'system removes earlier/later/itself and registers higher/equal/lower: ' \
                                          f'traces equal an independent reference scheduler {r}'


def exp_hash_seed():
    traces = [_run_child('--child-trace', {'PYTHONHASHSEED': s}) for s in ('0', '1', '4242', 'random')]
    exp = [list(x) for x in _expected_btrace(2)]
    ok = all(t == exp for t in traces)
    return ('OK' if ok else 'VIOLATION'), 'same trace under PYTHONHASHSEED=0/1/4242/random, equal to reference'


# --- oddities that are NOT counted -----------------------------------------------------------------------------------
def exp_exception_abort():
    h = Harness()
    o = [S(f'o{k}', h, priority=3 - k) for k in range(3)]
    runs = []

    def act(me):
        if id(o[2]) in h.registered:
            h.remove(o[2])
            raise RuntimeError('boom')

    o[1].script = {1: act}
    for x in o:
        h.add(x)
    h.step()
    try:
        h.model.execute()
    except RuntimeError:
        pass
    t_after = h.model.timestep
    h.step_events = []
    h.model.execute()
    runs = [e[1].id for e in h.step_events if e[0] == 'run']
    return 'NOTE', f'a system that raises after changing the set aborts the timestep without advancing the clock ' \
                   f'(timestep stays {t_after}); executing again re-runs the earlier systems for the same timestep ' \
                   f'value (ran {runs}). Retrying an aborted timestep is unspecified -> not counted'


def exp_reentrant():
    h = Harness()
    o = [S(f'o{k}', h, priority=3 - k) for k in range(3)]
    done = []

    def act(me):
        if not done:
            done.append(1)
            h.remove(o[2])
            h.model.systems.execute_systems()

    o[0].script = Always(act)
    for x in o:
        h.add(x)
    h.step_events = []
    h.model.execute()
    ev = [(k, s.id) for k, s in h.step_events]
    return 'NOTE', f'a system that calls execute_systems() re-entrantly (nested timestep of the same model) makes ' \
                   f'itself run again in the nested pass: {ev}. Caused by the re-entrant call, not by the set ' \
                   f'change; nested stepping is outside this property -> not counted'


def exp_incomparable_priority():
    log = []

    class L(System):
        def execute(self):
            log.append((self.model.systems.timestep, self.id))

    model = Model()

    class A(L):
        def execute(self):
            super().execute()
            if self.model.systems.timestep == 0:
                try:
                    self.model.systems.add_system(L('bad', self.model, priority=None))
                except TypeError:
                    pass

    model.systems.add_system(A('a', model, priority=1))
    model.systems.add_system(L('b', model, priority=0))
    model.execute(2)
    in_dict = 'bad' in model.systems.systems
    in_queue = any(s.id == 'bad' for s in model.systems.execution_queue)
    try:
        model.systems.remove_system('bad')
        rm = 'removed'
    except Exception as e:  # noqa
        rm = repr(e)
    return 'NOTE', f'add_system with a priority that cannot be compared (None) raises TypeError AFTER the system was ' \
                   f'put into SystemManager.systems: in dict={in_dict}, in queue={in_queue}, remove_system -> {rm}. ' \
                   f'Half-registered zombie, but a non-comparable priority is not a legal input -> not counted'


def exp_value_equality_register():
    """V1a. A System subclass with value based __eq__ (here: a dataclass) registered mid-timestep with a priority
    equal to that of an equal-comparing system is put into SystemManager.systems but never into the execution queue."""
    log = []

    @dataclasses.dataclass(eq=True)
    class Mover(System):
        speed: float = 1.0

        def execute(self):
            log.append((self.model.systems.timestep, self.id))

    def mover(id, model, priority, speed=1.0):
        m = Mover(speed)
        System.__init__(m, id, model, priority)
        return m

    class Adder(System):
        def execute(self):
            log.append((self.model.systems.timestep, self.id))
            if self.model.systems.timestep == 0:
                self.model.systems.add_system(mover('m2', self.model, 0))  # equal priority, equal value

    model = Model()
    model.systems.add_system(Adder('adder', model, priority=5))
    model.systems.add_system(mover('m1', model, 0))
    model.execute(3)
    registered = model.systems['m2'] is not None
    m2_runs = [t for t, i in log if i == 'm2']
    bad = registered and m2_runs != [1, 2] and m2_runs != [0, 1, 2]
    return ('VIOLATION' if bad else 'OK'), \
        f'[needs a System subclass with value-based __eq__] system \'m2\' (dataclass, == m1) registered mid-timestep ' \
        f'at t=0 with equal priority: model.systems[\'m2\'] registered={registered}, but it ran at timesteps ' \
        f'{m2_runs} (expected [1, 2] or [0, 1, 2]); execution_queue=' \
        f'{[s.id for s in model.systems.execution_queue]}, systems={list(model.systems.systems)}'


def exp_value_equality_remove():
    """V1b. Removing (from inside a timestep) a system that compares equal to an earlier system of the queue takes the
    WRONG system out of the execution queue: the removed one stays in the queue as a ghost, the innocent one stays in
    SystemManager.systems but never runs again."""
    log = []

    @functools.total_ordering
    class Ranked(System):  # systems that sort / compare by priority, e.g. to be able to use sorted(systems)
        def __eq__(self, other):
            return isinstance(other, Ranked) and self.priority == other.priority

        def __lt__(self, other):
            return self.priority < other.priority

        __hash__ = None

        def execute(self):
            log.append((self.model.systems.timestep, self.id))
            if self.id == 'boss' and self.model.systems.timestep == 1:
                self.model.systems.remove_system('w2')  # a later system

    model = Model()
    model.systems.add_system(Ranked('boss', model, priority=5))
    model.systems.add_system(Ranked('low', model, priority=-1))
    model.systems.add_system(Ranked('w1', model, priority=0))
    model.systems.add_system(Ranked('w2', model, priority=0))
    model.execute(4)
    w1_runs = [t for t, i in log if i == 'w1']
    w2_runs = [t for t, i in log if i == 'w2']
    w1_registered = model.systems['w1'] is not None
    bad = w1_registered and w1_runs != [0, 1, 2, 3] or w2_runs != [0]
    return ('VIOLATION' if bad else 'OK'), \
        f'[needs a System subclass with value-based __eq__] boss removes later system \'w2\' at t=1; \'w1\' ' \
        f'(== w2 by priority) stays registered={w1_registered} but ran at {w1_runs} (expected [0, 1, 2, 3]); w2 ran ' \
        f'at {w2_runs} (expected [0]); execution_queue={[s.id for s in model.systems.execution_queue]}, ' \
        f'systems={list(model.systems.systems)}'


def exp_value_equality_rerun():
    """V1c. Same mechanism, but the removed system is registered again later: it is then in the execution queue twice
    and runs twice in every following timestep."""
    log = []

    class Ranked(System):
        def __eq__(self, other):
            return isinstance(other, Ranked) and self.priority == other.priority

        __hash__ = None

        def execute(self):
            t = self.model.systems.timestep
            log.append((t, self.id))
            if self.id == 'boss' and t == 1:
                self.w2 = self.model.systems['w2']
                self.model.systems.remove_system('w2')  # a later system
            if self.id == 'boss' and t == 2:
                self.model.systems.add_system(self.w2)  # register it again

    class Boss(Ranked):
        __slots__ = ['w2']

    model = Model()
    model.systems.add_system(Boss('boss', model, priority=5))
    model.systems.add_system(Ranked('low', model, priority=-1))
    model.systems.add_system(Ranked('w1', model, priority=0))
    model.systems.add_system(Ranked('w2', model, priority=0))
    model.execute(5)
    per_t = {t: [i for tt, i in log if tt == t] for t in range(5)}
    bad = any(per_t[t].count('w2') > 1 for t in per_t)
    return ('VIOLATION' if bad else 'OK'), \
        f'[needs a System subclass with value-based __eq__] boss removes \'w2\' at t=1 and registers the same object ' \
        f'again at t=2: runs per timestep {per_t}; execution_queue={[s.id for s in model.systems.execution_queue]}'


EXPERIMENTS = [
    ('A01 exhaustive single action sweep', exp_exhaustive),
    ('A02 random multi-action fuzz', exp_fuzz),
    ('A03 oracle sensitivity (old scheduler must be flagged)', exp_oracle_sensitivity),
    ('A04 unusual ids', exp_ids),
    ('A05 falsy system objects', exp_falsy_systems),
    ('A06 priority value types', exp_priority_types),
    ('A07 collectors', exp_collectors),
    ('A08 nested / several models', exp_nested_models),
    ('A09 one system object in two models', exp_shared_system_object),
    ('A10 model completed mid-timestep', exp_complete_mid_timestep),
    ('A11 many systems, mass removal / registration', exp_many_systems),
    ('A12 deprecated aliases + environment swap', exp_deprecated_aliases_and_env_swap),
    ('A13 deepcopy from inside a timestep', exp_copy_and_pickle_mid_timestep),
    ('A14 real multiprocessing batch_run', exp_multiprocessing),
    ('A15 hash seed independence', exp_hash_seed),
    ('A16 exception aborts a timestep', exp_exception_abort),
    ('A17 re-entrant execute_systems', exp_reentrant),
    ('A18 incomparable priority half-registers', exp_incomparable_priority),
    ('A19 value-equality systems: register equal priority mid-timestep', exp_value_equality_register),
    ('A20 value-equality systems: remove later system mid-timestep', exp_value_equality_remove),
    ('A21 value-equality systems: remove then re-register -> double run', exp_value_equality_rerun),
]


def main():
    assert os.path.abspath(ECAgent.__file__).startswith(HERE), \
        f'wrong ECAgent under test: {ECAgent.__file__} (run with PYTHONPATH={HERE})'
    found = 0
    for name, f in EXPERIMENTS:
        try:
            status, detail = f()
        except Exception as e:  # noqa
            import traceback
            status, detail = 'ERROR', ''.join(traceback.format_exception_only(type(e), e)).strip()
        if status == 'VIOLATION':
            found += 1
        print(f'[{status:9}] {name}: {detail}')
    print()
    print(f'{found} experiment(s) show a violation')
    return 1 if found else 0


if __name__ == '__main__':
    if HERE not in sys.path:
        sys.path.insert(0, HERE)
    if '--child-batch' in sys.argv:
        child_batch()
    elif '--child-trace' in sys.argv:
        child_trace()
    else:
        sys.exit(main())
