"""Second-pass bug hunt for the property

    "Systems changing the system set mid-timestep never cause skips or reruns"

Run with:  cd /tmp/wt-C05-i && PYTHONPATH=/tmp/wt-C05-i /venv/bin/python hunt.py

Every experiment prints OK or a description of the violation.  Exit status is 1 if at least one genuine, in-scope
violation was found, otherwise 0.  Observations outside the stated scope are printed as NOTE and are not counted.
Only the public API is used.

How a timestep is judged (class ``World``).  Every recording system logs ``run`` events, and every registration or
removal it performs is logged as well.  A reference model, independent of the package's queue, keeps the registered
objects as (object, priority, registration number) and sorts them by (-priority, registration number).  After each
timestep:

  R1  no object ran more than once;
  R2  every object registered at the start of the timestep and never removed during it ran exactly once if it was
      eligible (start / end / frequency) and not at all otherwise;
  R3  no object ran after it had been removed in this timestep;
  R4  an object whose turn came before the system that removed it (or that removed itself) did run (no skip);
  R5  the objects that ran, restricted to those registered at the start of the timestep, ran in reference order;
  R6  an object registered during the timestep ran at most once in it (whether it runs in it at all is open), and
      from the next timestep on it is an ordinary member of the reference order.

Same-object remove + re-register inside one timestep and re-entrant stepping of the same model are excluded (known,
left open / out of scope).
"""
import itertools
import multiprocessing
import os
import random
import subprocess
import sys
import warnings

import ECAgent
from ECAgent.Core import Model, System, SystemNotFoundError
from ECAgent.Collectors import Collector, AgentCollector
from ECAgent.Batching import batch_run

VIOLATIONS = []


def report(name, problems, cases=None):
    suffix = f" ({cases} cases)" if cases is not None else ""
    if problems:
        VIOLATIONS.append(name)
        print(f"[VIOLATION] {name}{suffix}")
        for p in problems[:5]:
            print(f"      {p}")
    else:
        print(f"[OK]        {name}{suffix}")


def note(name, text):
    print(f"[NOTE]      {name}: {text}")


class Sys(System):
    """Recording system.  ``script`` maps a timestep to a callable(world, me) that is executed during the run."""
    __slots__ = ['world', 'script', 'tok']

    def __init__(self, id, world, priority=0, frequency=1, start=0, end=sys.maxsize, script=None):
        super().__init__(id, world.model, priority, frequency, start, end)
        self.world = world
        self.script = script or {}
        self.tok = next(world.tokens)

    def execute(self):
        self.world.events.append(('run', self))
        action = self.script.get(self.model.systems.timestep)
        if action is not None:
            action(self.world, self)


class WeirdSys(Sys):
    """Equal to everything, unhashable, falsy and of length 0 - the scheduler must not care."""
    __slots__ = []

    def __eq__(self, other):
        return True

    __hash__ = None

    def __bool__(self):
        return False

    def __len__(self):
        return 0


class World:
    def __init__(self, model=None):
        self.model = model if model is not None else Model()
        self.tokens = itertools.count()
        self.events = []
        self.reg = []  # reference: [object, priority, registration number]
        self.seq = itertools.count()
        self.problems = []

    # -- operations (usable both between timesteps and from inside a running system) --------------------------------
    def add(self, s):
        self.model.systems.add_system(s)
        self.reg.append((s, int(s.priority), next(self.seq)))
        self.events.append(('add', s))
        return s

    def remove(self, sid, via_cleanup=False):
        victim = next(e[0] for e in self.reg if e[0].id == sid)
        if via_cleanup:
            victim.clean_up()
        else:
            self.model.systems.remove_system(sid)
        self.reg = [e for e in self.reg if e[0] is not victim]
        self.events.append(('remove', victim))

    def has(self, sid):
        return any(e[0].id == sid for e in self.reg)

    def order(self):
        return [e[0] for e in sorted(self.reg, key=lambda e: (-e[1], e[2]))]

    @staticmethod
    def eligible(s, t):
        return s.start <= t <= s.end and (s.start - t) % s.frequency == 0

    # -- one judged timestep ----------------------------------------------------------------------------------------
    def step(self, label=''):
        t = self.model.systems.timestep
        start_order = self.order()
        pos = {id(s): i for i, s in enumerate(start_order)}
        del self.events[:]
        try:
            self.model.execute()
        except Exception as e:  # e.g. a re-run actor repeating its registration: judge what happened up to here
            self.problems.append(f"{label} timestep {t}: {type(e).__name__}: {e} (ran "
                                 f"{[s.id for k, s in self.events if k == 'run']})")
            return None
        ev = list(self.events)
        ran = [s for kind, s in ev if kind == 'run']
        names = [s.id for s in ran]
        where = f"{label} timestep {t}: ran {names}"
        # R1 / R6
        for s in ran:
            if sum(1 for x in ran if x is s) > 1:
                self.problems.append(f"{where}: {s.id!r} ran more than once")
                break
        removed, added = [s for k, s in ev if k == 'remove'], [s for k, s in ev if k == 'add']
        # R2
        for s in start_order:
            if not any(s is r for r in removed):
                n = sum(1 for x in ran if x is s)
                want = 1 if self.eligible(s, t) else 0
                if n != want:
                    self.problems.append(f"{where}: {s.id!r} stayed registered, ran {n}x, expected {want}x")
        # R3 / R4
        current_runner = None
        has_run = set()
        gone = set()
        for kind, s in ev:
            if kind == 'run':
                current_runner = s
                has_run.add(id(s))
                if id(s) in gone:
                    self.problems.append(f"{where}: {s.id!r} ran after it had been removed")
            elif kind == 'remove':
                gone.add(id(s))
                if id(s) in pos and current_runner is not None and id(current_runner) in pos and \
                        pos[id(s)] <= pos[id(current_runner)] and self.eligible(s, t) and id(s) not in has_run:
                    self.problems.append(f"{where}: {s.id!r} was skipped although its turn came before its removal")
        # R5
        ranks = [pos[id(s)] for s in ran if id(s) in pos]
        if ranks != sorted(ranks):
            self.problems.append(f"{where}: not in priority order, expected order {[s.id for s in start_order]}")
        # the package's own queue must agree with the reference after the timestep
        if [id(s) for s in self.model.systems.execution_queue] != [id(s) for s in self.order()]:
            self.problems.append(f"{where}: queue {[s.id for s in self.model.systems.execution_queue]} differs from "
                                 f"reference {[s.id for s in self.order()]}")
        if self.model.systems.timestep != t + 1 and self.model.is_running():
            self.problems.append(f"{where}: timestep counter is {self.model.systems.timestep}, expected {t + 1}")
        return names


PRIORITY_PATTERNS = {
    'distinct': [4, 3, 2, 1, 0],
    'all equal': [0, 0, 0, 0, 0],
    'runs of equals': [2, 2, 0, 0, -2],
    'zero/negative': [0, -1, -1, -5, -5],
}


def build(prios, actor, script, cls=Sys, ids=None, windows=None):
    w = World()
    for k, p in enumerate(prios):
        kwargs = dict(windows[k]) if windows else {}
        w.add(cls(ids[k] if ids else f's{k}', w, p, script=script if k == actor else None, **kwargs))
    return w


# ---------------------------------------------------------------------------------------------------------------------
def exp_single_action(cls=Sys, ids=None, title=None):
    """Every priority pattern x every actor position x every timestep x every single action."""
    problems, cases = [], 0
    for pname, prios in PRIORITY_PATTERNS.items():
        n = len(prios)
        new_prios = sorted(set(prios) | {max(prios) + 1, min(prios) - 1, max(prios) + 10 ** 20})
        for actor in range(n):
            for when in (0, 1, 2):
                actions = []
                for target in range(n):  # earlier, itself, later
                    tid = ids[target] if ids else f's{target}'
                    actions.append((f"remove {tid!r}", lambda w, me, tid=tid: w.remove(tid)))
                    actions.append((f"clean_up {tid!r}", lambda w, me, tid=tid: w.remove(tid, via_cleanup=True)))
                    actions.append((f"replace {tid!r} by a new object",
                                    lambda w, me, tid=tid, target=target: (
                                        w.remove(tid), w.add(cls(tid, w, prios[target])))))
                for np_ in new_prios:
                    actions.append((f"register new with priority {np_}",
                                    lambda w, me, np_=np_: w.add(cls(('new', np_), w, np_))))
                for aname, action in actions:
                    cases += 1
                    w = build(prios, actor, {when: action}, cls=cls, ids=ids)
                    for _ in range(4):
                        w.step(f"[{pname}] actor #{actor} at t={when} does <{aname}>;")
                    problems += w.problems
    report(title or "01 one action: remove / clean_up / replace (self, earlier, later) or register (higher, equal, "
                    "between, lower)", problems, cases)


def exp_weird_subclass():
    exp_single_action(cls=WeirdSys, title="02 the same sweep with System subclasses that are ==-equal to everything, "
                                          "unhashable, falsy, len 0")


def exp_falsy_ids():
    class S(str):
        pass
    exp_single_action(ids=['', 0, None, S('x'), ()], title="03 the same sweep with ids '', 0, None, a str subclass, ()")


def exp_two_actions_same_timestep():
    """Two different systems act in the same timestep (all pairs of positions, a representative set of actions)."""
    problems, cases = [], 0
    prios = [2, 2, 0, 0, -2]
    n = len(prios)

    def make_actions(tag):
        acts = []
        for target in range(n):
            def rm(w, me, tid=f's{target}'):
                if w.has(tid):
                    w.remove(tid)
            acts.append((f"remove s{target} if present", rm))
        for p in (5, 2, 0, -2, -9):
            acts.append((f"register new {tag} priority {p}", lambda w, me, p=p: w.add(Sys(f'new{tag}{p}', w, p))))
        acts.append(("remove everything", lambda w, me: [w.remove(e[0].id) for e in list(w.reg)]))
        acts.append(("remove everything after me, register replacements",
                     lambda w, me: [(w.remove(s.id), w.add(Sys(s.id, w, s.priority)))
                                    for s in w.order()[w.order().index(me) + 1:]]))
        return acts

    for a1, a2 in itertools.combinations(range(n), 2):
        for (n1, f1), (n2, f2) in itertools.product(make_actions('A'), make_actions('B')):
            cases += 1
            w = World()
            for k, p in enumerate(prios):
                w.add(Sys(f's{k}', w, p, script={1: f1} if k == a1 else {1: f2} if k == a2 else None))
            for _ in range(4):
                w.step(f"actor #{a1} <{n1}> and actor #{a2} <{n2}> at t=1;")
            problems += w.problems
    report("04 two acting systems in one timestep, every pair of positions x 12 x 12 actions", problems, cases)


def exp_chain_of_new_systems():
    """A newly registered system itself registers / removes systems in its first timestep, and so on."""
    problems = []
    w = World()

    def spawn(depth):
        def action(w, me):
            if depth < 6:
                p = [3, 0, -3, 0, 7, 0][depth]
                child = Sys(f'gen{depth + 1}', w, p)
                child.script = {t: spawn(depth + 1) for t in range(0, 30)}
                if not w.has(child.id):
                    w.add(child)
            if depth >= 2 and w.has(f'gen{depth - 1}'):
                w.remove(f'gen{depth - 1}')
        return action

    root = Sys('gen0', w, 0)
    root.script = {t: spawn(0) for t in range(30)}
    w.add(root)
    w.add(Sys('bystander-high', w, 9))
    w.add(Sys('bystander-mid', w, 0))
    w.add(Sys('bystander-low', w, -9))
    for _ in range(14):
        w.step("spawning chain;")
    report("05 chain: each new system registers the next one and removes its grandparent", w.problems)


def exp_windows():
    """Eligibility windows (start / end / frequency) combined with mid-timestep changes."""
    problems, cases = [], 0
    rng = random.Random(99)
    for trial in range(600):
        cases += 1
        w = World()
        n = 6
        prios = [rng.choice([-1, 0, 0, 1]) for _ in range(n)]
        for k in range(n):
            script = {}
            for t in range(8):
                r = rng.random()
                if r < 0.12:
                    tid = f's{rng.randrange(n)}'
                    script[t] = lambda w, me, tid=tid: w.has(tid) and w.remove(tid)
                elif r < 0.24:
                    p, st, fr = rng.choice([-2, -1, 0, 1, 2]), rng.randrange(0, 8), rng.randrange(1, 4)
                    nid = f'n{k}_{t}'
                    script[t] = lambda w, me, nid=nid, p=p, st=st, fr=fr: w.add(
                        Sys(nid, w, p, frequency=fr, start=st, end=st + 4))
            w.add(Sys(f's{k}', w, prios[k], frequency=rng.randrange(1, 4), start=rng.randrange(0, 3),
                      end=rng.randrange(3, 9), script=script))
        for _ in range(9):
            w.step(f"window trial {trial};")
        problems += w.problems
        if problems:
            break
    report("06 random start / end / frequency windows with removals and registrations from inside systems", problems,
           cases)


def exp_fuzz():
    """Long random scripts: many actors per timestep, replacements under a freed id, new systems acting at once."""
    problems, cases = [], 0
    rng = random.Random(20260927)

    def random_script(depth=0):
        script = {}
        for t in range(12):
            r = rng.random()
            if r < 0.10:
                k = rng.randrange(8)
                script[t] = lambda w, me, tid=f's{k}': w.has(tid) and w.remove(tid)
            elif r < 0.16:
                script[t] = lambda w, me: w.remove(me.id)
            elif r < 0.20:
                script[t] = lambda w, me: w.remove(me.id, via_cleanup=True)
            elif r < 0.30 and depth < 3:
                k, p, sub = rng.randrange(8), rng.choice([-2, -1, 0, 0, 1, 2]), random_script(depth + 1)
                script[t] = lambda w, me, tid=f's{k}', p=p, sub=sub: (not w.has(tid)) and w.add(
                    Sys(tid, w, p, script=sub))
            elif r < 0.36 and depth < 3:
                k, p, sub = rng.randrange(8), rng.choice([-1, 0, 1]), random_script(depth + 1)

                def replace(w, me, tid=f's{k}', p=p, sub=sub):
                    if w.has(tid) and not any(e[0] is me for e in w.reg if e[0].id == tid):
                        w.remove(tid)
                        w.add(Sys(tid, w, p, script=sub))
                script[t] = replace
            elif r < 0.39:  # a rejected registration and a rejected removal, both handled by the system
                def rejected(w, me):
                    before = (list(w.model.systems.execution_queue), dict(w.model.systems.systems))
                    try:
                        w.model.systems.add_system(Sys(me.id, w, 50))
                        w.problems.append("duplicate id accepted")
                    except KeyError:
                        pass
                    try:
                        w.model.systems.remove_system('no such system')
                        w.problems.append("unknown id removed")
                    except SystemNotFoundError:
                        pass
                    after = (list(w.model.systems.execution_queue), dict(w.model.systems.systems))
                    if len(before[0]) != len(after[0]) or any(a is not b for a, b in zip(before[0], after[0])) or \
                            before[1].keys() != after[1].keys():
                        w.problems.append("a rejected operation changed the manager")
                script[t] = rejected
        return script

    for trial in range(1200):
        cases += 1
        w = World()
        for k in range(6):
            w.add(Sys(f's{k}', w, rng.choice([-1, 0, 0, 1, 1]), script=random_script()))
        for _ in range(12):
            w.step(f"fuzz trial {trial};")
        problems += w.problems
        if problems:
            break
    report("07 fuzz: 1200 models x 12 timesteps of scripted removals, self-removals, registrations, replacements, "
           "rejected operations", problems, cases)


def exp_two_models():
    """A system of model A changes the system set of model B while B is in the middle of ITS timestep (B's system
    steps A - this is not re-entrant stepping of B), and vice versa between timesteps."""
    problems = []
    wa, wb = World(), World()
    for k, p in enumerate([1, 0, 0, -1]):
        wb.add(Sys(f'b{k}', wb, p))
    # A's system removes B's not-yet-run b2, registers a high-priority newcomer in B, and removes the already-run b0
    wa.add(Sys('a0', wa, 0, script={0: lambda w, me: (wb.remove('b2'), wb.add(Sys('bnew', wb, 5)), wb.remove('b0'))}))
    wb.reg[1][0].script = {0: lambda w, me: wa.model.execute()}  # b1 steps model A in B's timestep 0
    names = wb.step("two models;")
    if names != ['b0', 'b1', 'b3']:
        problems.append(f"B's timestep 0 ran {names}, expected ['b0', 'b1', 'b3']")
    names = wb.step("two models;")
    if names != ['bnew', 'b1', 'b3']:
        problems.append(f"B's timestep 1 ran {names}, expected ['bnew', 'b1', 'b3']")
    problems += wa.problems + wb.problems
    # the same System object registered with two managers; one manager drops it while the other one is mid-timestep
    w1, w2 = World(), World()
    shared = Sys('shared', w1, 0)
    w1.add(Sys('first', w1, 1, script={0: lambda w, me: w2.remove('shared')}))
    w1.add(shared)
    w2.model.systems.add_system(shared)
    w2.reg.append((shared, 0, next(w2.seq)))
    n1 = w1.step("shared object;")
    if n1 != ['first', 'shared']:
        problems.append(f"model 1 ran {n1} - removing the shared system from model 2 must not skip it in model 1")
    report("08 two models: cross-model changes while the other model is mid-timestep; one object in two managers",
           problems)


def exp_collectors():
    """The library's own systems (Collector / AgentCollector) as actor and as target."""
    problems = []
    w = World()
    seen = []

    class ActingCollector(Collector):
        def collect(self):
            w.events.append(('run', self))
            t = self.model.systems.timestep
            self.records.append(t)
            if t == 1:
                w.remove('AgentCollector')
                w.add(Sys('late', w, -1))  # same priority as the collectors
            if t == 2:
                w.remove(self.id)

    w.add(Sys('s0', w, 0))
    acting = ActingCollector('acting', w.model)
    w.add(acting)
    class LoggedAgentCollector(AgentCollector):  # only adds the 'run' event the judge needs
        def execute(self):
            w.events.append(('run', self))
            super().execute()

    ac = LoggedAgentCollector(w.model, lambda a: None,
                              compositeFunc=lambda agents: seen.append(w.model.systems.timestep))
    w.add(ac)
    w.add(Sys('s1', w, -5))
    for _ in range(4):
        w.step("collectors;")
    problems += w.problems
    if seen != [0]:
        problems.append(f"AgentCollector collected at timesteps {seen}, expected [0] (removed before its turn at t=1)")
    if acting.records != [0, 1, 2]:
        problems.append(f"acting collector ran at {acting.records}, expected [0, 1, 2]")
    report("09 Collector subclass removing an AgentCollector / itself and registering an equal-priority system",
           problems)


def exp_complete_and_exception():
    """Model completed, or an exception raised, by the acting system right after it changed the system set."""
    problems = []
    w = World()

    def act(w, me):
        w.remove('s3')
        w.add(Sys('new', w, 9))
        w.model.complete()
    for k, p in enumerate([2, 1, 0, -1]):
        w.add(Sys(f's{k}', w, p, script={0: act} if k == 1 else None))
    del w.events[:]
    w.model.execute()
    ran = [s.id for kind, s in w.events if kind == 'run']
    if ran != ['s0', 's1']:
        problems.append(f"completing timestep ran {ran}, expected ['s0', 's1']")
    del w.events[:]
    w.model.execute(3)
    if w.events:
        problems.append("a completed model still runs systems")
    # exception raised by the actor after an accepted change; the caller retries
    w = World()
    armed = [True]

    def boom(w, me):
        if armed[0]:
            armed[0] = False
            w.remove('s2')
            w.add(Sys('new', w, 9))
            raise RuntimeError('boom')
    for k, p in enumerate([2, 1, 0, -1]):
        w.add(Sys(f's{k}', w, p, script={0: boom} if k == 1 else None))
    del w.events[:]
    try:
        w.model.execute()
        problems.append("exception swallowed")
    except RuntimeError:
        pass
    first = [s.id for kind, s in w.events if kind == 'run']
    if first != ['s0', 's1']:
        problems.append(f"aborted timestep ran {first}")
    counter_after_abort = w.model.systems.timestep
    names = w.step("retry after exception;")
    if names != ['new', 's0', 's1', 's3']:
        problems.append(f"retry ran {names}, expected ['new', 's0', 's1', 's3']")
    problems += w.problems
    report("10 actor completes the model / raises right after changing the set (timestep aborted, then retried)",
           problems)
    note("N1 uncaught exception inside a system",
         f"the timestep counter stays at {counter_after_abort}, so a caller that catches the exception and steps again "
         f"re-runs the systems that had already run under the same timestep number; the property presupposes a "
         f"timestep that completes, so this is unspecified and not counted")


class SelfModifyingModel(Model):
    """Used by the batching experiment: the trace is collected by a collector that runs last."""
    __slots__ = ['trace']

    def __init__(self, variant=0):
        super().__init__()
        self.trace = []
        model = self

        class T(System):
            def __init__(self, id, priority, script=None):
                super().__init__(id, model, priority)
                self.script = script or {}

            def execute(self):
                model.trace.append((model.systems.timestep, self.id))
                f = self.script.get(model.systems.timestep)
                if f:
                    f()
        s = self.systems
        s.add_system(T('a', 2))
        s.add_system(T('b', 1, {1: lambda: (s.remove_system(['a', 'b', 'c', 'd'][variant % 4]),
                                            s.add_system(T(f'n{variant}', [5, 1, 0, -5][variant // 4])))}))
        s.add_system(T('c', 1))
        s.add_system(T('d', 0))
        s.add_system(TraceCollector('trace', self, priority=-100))


class TraceCollector(Collector):
    def collect(self):
        self.records.append(list(self.model.trace))


def _expected_batch_trace(variant):
    victim, newp = ['a', 'b', 'c', 'd'][variant % 4], [5, 1, 0, -5][variant // 4]
    t0 = [(0, x) for x in 'abcd']
    t1 = [(1, x) for x in 'abcd' if not (x == victim and x in 'cd')]
    members = [(x, p) for x, p in [('a', 2), ('b', 1), ('c', 1), ('d', 0)] if x != victim] + [(f'n{variant}', newp)]
    order = [x for x, p in sorted(members, key=lambda e: -e[1])]  # stable: the newcomer is last among its equals
    t2 = [(2, x) for x in order]
    return t0 + t1 + t2


def _batch_worker(conn, processes):
    try:
        conn.send(batch_run(SelfModifyingModel, {'variant': list(range(16))}, collectors='trace', processes=processes,
                            max_timesteps=3))
    except BaseException as e:  # pragma: no cover
        conn.send(RuntimeError(f"{type(e).__name__}: {e}"))


def exp_batching():
    problems = []
    for processes in (1, 3):
        parent, child = multiprocessing.Pipe()
        p = multiprocessing.Process(target=_batch_worker, args=(child, processes))
        p.start()
        if not parent.poll(120):
            p.terminate()
            problems.append(f"processes={processes}: timed out")
            continue
        result = parent.recv()
        p.join(10)
        if isinstance(result, BaseException):
            problems.append(f"processes={processes}: {result}")
            continue
        got = sorted(records[-1] for records in result)
        want = sorted(_expected_batch_trace(v) for v in range(16))
        if got != want:
            bad = [g for g in got if g not in want]
            problems.append(f"processes={processes}: unexpected traces, e.g. {bad[:1]}")
    report("11 batch_run (processes=1 and 3, real workers, timeout) over 16 self-modifying model variants", problems)


HASHSEED_SNIPPET = r"""
from ECAgent.Core import Model, System
log = []
m = Model()
class R(System):
    def __init__(self, id, p, f=None):
        super().__init__(id, m, p); self.f = f
    def execute(self):
        log.append(self.id)
        if self.f and m.systems.timestep == 1: self.f()
s = m.systems
s.add_system(R('zeta', 0)); s.add_system(R('alpha', 0, lambda: (s.remove_system('Alpha'), s.remove_system('zeta'),
    s.add_system(R('Alpha', 3)), s.add_system(R('', 0)), s.remove_system('alpha'))))
s.add_system(R('Alpha', 0)); s.add_system(R('omega', -1)); s.add_system(R('beta', 1))
m.execute(3)
print('|'.join(log))
"""


def exp_hash_seed():
    problems, outputs = [], set()
    for seed in ('0', '1', '31337', 'random'):
        env = dict(os.environ, PYTHONHASHSEED=seed, PYTHONPATH=os.path.dirname(os.path.dirname(ECAgent.__file__)))
        out = subprocess.run([sys.executable, '-c', HASHSEED_SNIPPET], env=env, capture_output=True, text=True,
                             timeout=60)
        if out.returncode != 0:
            problems.append(f"PYTHONHASHSEED={seed}: {out.stderr.strip()[-300:]}")
        outputs.add(out.stdout.strip())
    want = 'beta|zeta|alpha|Alpha|omega' + '|beta|zeta|alpha|omega' + '|Alpha|beta||omega'
    if outputs != {want}:
        problems.append(f"traces seen {outputs}, expected {want}")
    report("12 same trace under 4 hash seeds (string ids, replacement under a freed id)", problems)


def exp_aliases():
    """Deprecated camelCase aliases used from inside a running system."""
    problems = []
    w = World()

    def act(w, me):
        with warnings.catch_warnings():
            warnings.simplefilter('ignore')
            w.model.systems.removeSystem('s2')
            w.reg = [e for e in w.reg if e[0].id != 's2']
            w.events.append(('remove', victim[0]))
            new = Sys('viaAlias', w, 1)
            w.model.systems.addSystem(new)
            w.reg.append((new, 1, next(w.seq)))
            w.events.append(('add', new))
    victim = []
    for k, p in enumerate([1, 1, 1, 0]):
        s = w.add(Sys(f's{k}', w, p, script={1: act} if k == 1 else None))
        if k == 2:
            victim.append(s)
    with warnings.catch_warnings():
        warnings.simplefilter('ignore')
        for _ in range(3):
            del w.events[:]
            start = w.order()
            t = w.model.systems.timestep
            w.model.systems.executeSystems()
            ran = [s.id for k, s in w.events if k == 'run']
            want = {0: ['s0', 's1', 's2', 's3'], 1: ['s0', 's1', 's3'], 2: ['s0', 's1', 'viaAlias', 's3']}[t]
            if ran != want:
                problems.append(f"timestep {t} ran {ran}, expected {want}")
    report("13 deprecated aliases removeSystem / addSystem / executeSystems from inside a timestep", problems)


def exp_many():
    """Mass changes: a system in the middle removes every second later system and registers 200 new ones."""
    problems = []
    w = World()

    def act(w, me):
        later = w.order()[w.order().index(me) + 1:]
        for s in later[::2]:
            w.remove(s.id)
        earlier = w.order()[:w.order().index(me)]
        for s in earlier[::3]:
            w.remove(s.id)
        for k in range(200):
            w.add(Sys(f'n{k}', w, k % 5 - 2))
    rng = random.Random(1)
    for k in range(300):
        w.add(Sys(f's{k}', w, rng.choice([-2, -1, 0, 1, 2]), script={1: act} if k == 150 else None))
    for _ in range(3):
        w.step("mass change;")
    report("14 300 systems, the actor removes half of the later and a third of the earlier ones and registers 200",
           w.problems)


def main():
    print("ECAgent under test:", ECAgent.__file__)
    exp_single_action()
    exp_weird_subclass()
    exp_falsy_ids()
    exp_two_actions_same_timestep()
    exp_chain_of_new_systems()
    exp_windows()
    exp_fuzz()
    exp_two_models()
    exp_collectors()
    exp_complete_and_exception()
    exp_batching()
    exp_hash_seed()
    exp_aliases()
    exp_many()
    print()
    if VIOLATIONS:
        print(f"{len(VIOLATIONS)} genuine violation(s): {VIOLATIONS}")
        return 1
    print("No violation of the property found within its stated scope.")
    return 0


if __name__ == '__main__':
    sys.exit(main())
