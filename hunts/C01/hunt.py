"""Bug hunt for the property

    "Systems run in descending priority, registration order among equals"

Run with:  cd /tmp/wt-C01-h && PYTHONPATH=/tmp/wt-C01-h /venv/bin/python hunt.py

Only the public API of ECAgent is used (Model, System, SystemManager.add_system / remove_system /
execute_systems, Model.execute / complete, System.clean_up, Collectors, Decode.JsonDecoder, Batching.batch_run).
Exit status: 1 if at least one genuine violation was found, else 0.
"""
import copy
import hashlib
import itertools
import json
import os
import pickle
import random
import subprocess
import sys
import tempfile
from dataclasses import dataclass
from enum import IntEnum

from ECAgent.Core import Model, System, SystemNotFoundError, ModelCompleteError
from ECAgent.Collectors import Collector, AgentCollector
import ECAgent.Batching as Batching
import ECAgent.Decode as Decode

HERE = os.path.dirname(os.path.abspath(__file__))

LOG = []          # global run log: ids in the order in which execute() was called
VIOLATIONS = []   # (name, description)
RESULTS = []      # (name, 'OK' | 'VIOLATION' | 'NOTE', text)


class Rec(System):
    """A system that records its id when it runs and then optionally performs an action."""

    def __init__(self, id, model, priority=0, frequency=1, start=0, end=sys.maxsize, action=None, log=None):
        super().__init__(id, model, priority, frequency, start, end)
        self.action = action
        self.log = LOG if log is None else log

    def execute(self):
        self.log.append(self.id)
        if self.action is not None:
            self.action(self)


def expected_order(registered):
    """registered: list of systems in registration order -> expected run order (stable sort, descending priority)."""
    return [s.id for s in sorted(registered, key=lambda s: -int(s.priority))]


def step(model, n=1):
    LOG.clear()
    model.execute(n)
    return list(LOG)


def report(name, ok, text=''):
    if ok:
        RESULTS.append((name, 'OK', ''))
        print(f'[OK]        {name}')
    else:
        RESULTS.append((name, 'VIOLATION', text))
        VIOLATIONS.append((name, text))
        print(f'[VIOLATION] {name}\n' + '\n'.join('            ' + ln for ln in text.splitlines()))


def note(name, text):
    RESULTS.append((name, 'NOTE', text))
    print(f'[NOTE]      {name} -- {text}')


EXPERIMENTS = []


def experiment(fn):
    """Register an experiment (they are run by main())."""
    EXPERIMENTS.append(fn)
    return fn


def run_experiment(fn):
    """Run an experiment; an unexpected exception is itself reported (as a note, not as a violation)."""
    try:
        fn()
    except Exception as e:  # pragma: no cover
        import traceback
        traceback.print_exc()
        note(fn.__name__, f'experiment crashed: {e!r}')


# ---------------------------------------------------------------------------------------------------------------------
# 1. every permutation of the same set
# ---------------------------------------------------------------------------------------------------------------------
@experiment
def exp01_all_permutations():
    prios = [2, 0, 0, -1, 2, 0, -1]
    bad = None
    for perm in itertools.permutations(range(len(prios))):
        m = Model()
        reg = [Rec(f's{i}', m, prios[i]) for i in perm]
        for s in reg:
            m.systems.add_system(s)
        got = step(m)
        if got != expected_order(reg):
            bad = (perm, got, expected_order(reg))
            break
    report('01 all 5040 registration permutations of priorities [2,0,0,-1,2,0,-1]', bad is None, str(bad or ''))


# ---------------------------------------------------------------------------------------------------------------------
# 2. random histories (add / duplicate add / remove / unknown remove / re-register (same or changed priority) / step)
#    checked against a reference model, between timesteps
# ---------------------------------------------------------------------------------------------------------------------
def random_history(seed, n_ops=120, prio_pool=(-3, -1, 0, 0, 0, 1, 2, 2, 10 ** 30, -10 ** 30, True, False)):
    rnd = random.Random(seed)
    m = Model()
    reg = []        # reference: registered systems, in registration order
    parked = []     # removed system objects that may be re-registered
    counter = itertools.count()
    digest = hashlib.sha256()
    for _ in range(n_ops):
        op = rnd.choice(['add', 'add', 'add', 'dup', 'remove', 'remove', 'unknown', 'readd', 'readd_p', 'step', 'step'])
        before_q = list(m.systems.execution_queue)
        before_d = dict(m.systems.systems)
        if op == 'add':
            s = Rec(f'n{next(counter)}', m, rnd.choice(prio_pool))
            m.systems.add_system(s)
            reg.append(s)
        elif op == 'dup' and reg:
            victim = rnd.choice(reg)
            # either the very same object or a different object with the id already in use (different priority)
            s = victim if rnd.random() < 0.5 else Rec(victim.id, m, rnd.choice(prio_pool))
            try:
                m.systems.add_system(s)
                return f'seed {seed}: duplicate registration of id {victim.id!r} was not rejected'
            except KeyError:
                pass
            if list(m.systems.execution_queue) != before_q or dict(m.systems.systems) != before_d \
                    or any(a is not b for a, b in zip(m.systems.execution_queue, before_q)):
                return f'seed {seed}: rejected registration changed the manager'
        elif op == 'remove' and reg:
            victim = rnd.choice(reg)
            if rnd.random() < 0.3:
                victim.clean_up()
            else:
                m.systems.remove_system(victim.id)
            reg.remove(victim)
            parked.append(victim)
        elif op == 'unknown':
            ghost = rnd.choice(parked).id if parked and rnd.random() < 0.7 else 'never-there'
            if any(s.id == ghost for s in reg):
                continue
            try:
                m.systems.remove_system(ghost)
                return f'seed {seed}: removal of unknown id {ghost!r} was not rejected'
            except SystemNotFoundError:
                pass
            if list(m.systems.execution_queue) != before_q or dict(m.systems.systems) != before_d:
                return f'seed {seed}: rejected removal changed the manager'
        elif op in ('readd', 'readd_p') and parked:
            s = parked.pop(rnd.randrange(len(parked)))
            if any(r.id == s.id for r in reg):
                parked.append(s)
                continue
            if op == 'readd_p':
                s.priority = rnd.choice(prio_pool)   # legal: it is not registered at this moment
            m.systems.add_system(s)
            reg.append(s)
        elif op == 'step':
            got = step(m)
            exp = expected_order(reg)
            digest.update(repr(got).encode())
            if got != exp:
                return f'seed {seed}: ran {got}, expected {exp}'
        if [s.id for s in m.systems.execution_queue] != expected_order(reg):
            return f'seed {seed}: queue {[s.id for s in m.systems.execution_queue]} != {expected_order(reg)} after {op}'
        if set(m.systems.systems) != {s.id for s in reg}:
            return f'seed {seed}: systems dict out of sync after {op}'
    return digest.hexdigest()


@experiment
def exp02_random_histories():
    bad = None
    for seed in range(400):
        r = random_history(seed)
        if not (len(r) == 64 and ' ' not in r):
            bad = r
            break
    report('02 400 random add/remove/re-register/reject/step histories vs reference (between timesteps)',
           bad is None, bad or '')


# ---------------------------------------------------------------------------------------------------------------------
# 3. priority value kinds: bool, huge, negative, numpy integer scalars of mixed dtypes
# ---------------------------------------------------------------------------------------------------------------------
class Level(IntEnum):
    LOW = -4
    HIGH = 4


@experiment
def exp03_priority_kinds():
    try:
        import numpy as np
        np_vals = [np.int8(100), np.int8(-128), np.uint8(255), np.uint64(2 ** 64 - 1), np.uint64(2 ** 63 + 1),
                   np.int64(2 ** 63 - 1), np.int64(-2 ** 63), np.int64(2 ** 53 + 1), np.uint64(2 ** 53),
                   np.int32(0), np.uint16(0), np.intp(-7)]
    except ImportError:  # pragma: no cover
        np_vals = []
    vals = [True, False, 0, -0, 1, -1, 2 ** 70, -2 ** 70, 2 ** 64, 2 ** 63, 2 ** 53, 2 ** 53 + 1, 255, 100,
            Level.LOW, Level.HIGH] + np_vals
    bad = None
    rnd = random.Random(7)
    for trial in range(300):
        order = vals[:]
        rnd.shuffle(order)
        m = Model()
        reg = [Rec(f'k{i}', m, p) for i, p in enumerate(order)]
        for s in reg:
            m.systems.add_system(s)
        got = step(m)
        if got != expected_order(reg):
            bad = (got, expected_order(reg))
            break
    report('03 bool / zero / negative / huge / numpy-integer priorities of mixed dtypes, 300 shuffles',
           bad is None, str(bad or ''))


@experiment
def exp03b_out_of_scope_half_registration():
    """NOT counted: priorities that are not integers.  numpy.bool_ is not an integer type; comparing it with a Python
    int beyond 64 bits raises OverflowError inside add_system *after* the system was stored in the systems dict."""
    try:
        import numpy as np
    except ImportError:  # pragma: no cover
        return
    m = Model()
    m.systems.add_system(Rec('big', m, 2 ** 70))
    s = Rec('npbool', m, np.bool_(True))
    try:
        m.systems.add_system(s)
        note('03b (out of scope) numpy.bool_ priority next to a >64-bit int', 'no error')
    except OverflowError:
        note('03b (out of scope, not counted) numpy.bool_ priority next to a >64-bit int priority',
             f'add_system raised OverflowError but left a half-registered system: systems dict {list(m.systems.systems)}'
             f', queue {[x.id for x in m.systems.execution_queue]} (Core.py line 625 stores before the comparisons)')


# ---------------------------------------------------------------------------------------------------------------------
# 4. identifiers: falsy ids, str subclasses, cross-type equal ids, ids with __len__/__bool__
# ---------------------------------------------------------------------------------------------------------------------
class MyStr(str):
    pass


class FalsyId:
    def __bool__(self):
        return False

    def __len__(self):
        return 0


@experiment
def exp04_identifiers():
    m = Model()
    ids = ['', 0, None, (), MyStr('x'), 'y', frozenset(), FalsyId(), 0.5, MyStr('')]
    # MyStr('') == '' : second one must be rejected and change nothing
    reg = []
    problems = []
    for i, ident in enumerate(ids):
        s = Rec(ident, m, [0, 1, 0, -1][i % 4])
        before = list(m.systems.execution_queue)
        try:
            m.systems.add_system(s)
            reg.append(s)
        except KeyError:
            if not any(r.id == ident for r in reg):
                problems.append(f'id {ident!r} rejected although not in use')
            if list(m.systems.execution_queue) != before:
                problems.append(f'rejected registration of {ident!r} changed queue')
    got = step(m)
    if got != expected_order(reg):
        problems.append(f'ran {got!r} expected {expected_order(reg)!r}')
    # ids that are equal across types: 1 / True / 1.0 are the same identifier for a dict
    m = Model()
    a = Rec(1, m, 0)
    m.systems.add_system(a)
    for other in (True, 1.0):
        try:
            m.systems.add_system(Rec(other, m, 5))
            problems.append(f'id {other!r} accepted although equal id 1 is in use')
        except KeyError:
            pass
    if m.systems.execution_queue != [a]:
        problems.append('queue changed by rejected cross-type ids')
    # removing through falsy ids
    m = Model()
    s0, s1, s2 = Rec('', m, 0), Rec(0, m, 0), Rec('z', m, 0)
    for s in (s0, s1, s2):
        m.systems.add_system(s)
    m.systems.remove_system('')
    m.systems.add_system(s0)
    if step(m) != [0, 'z', '']:
        problems.append(f'falsy id re-registration order {LOG!r}')
    report('04 falsy / str-subclass / cross-type-equal / odd identifiers', not problems, '; '.join(problems))


# ---------------------------------------------------------------------------------------------------------------------
# 5. rejected operations change nothing (explicit small cases, incl. same object, different priority, unhashable)
# ---------------------------------------------------------------------------------------------------------------------
@experiment
def exp05_rejections():
    m = Model()
    a, b, c = Rec('a', m, 0), Rec('b', m, 1), Rec('c', m, 0)
    for s in (a, b, c):
        m.systems.add_system(s)
    problems = []

    def snapshot():
        return list(m.systems.execution_queue), list(m.systems.systems.items()), m.systems.timestep

    base = snapshot()
    for cand in (a, Rec('a', m, 99), Rec('c', m, -99), Rec('b', m, 1)):
        try:
            m.systems.add_system(cand)
            problems.append('duplicate accepted')
        except KeyError:
            pass
        if snapshot() != base:
            problems.append('rejected add changed state')
    for ghost in ('nope', '', None, 0, 'A'):
        try:
            m.systems.remove_system(ghost)
            problems.append('unknown removal accepted')
        except SystemNotFoundError:
            pass
        if snapshot() != base:
            problems.append('rejected remove changed state')
    for unhashable in ([], {}):
        try:
            m.systems.remove_system(unhashable)
        except (TypeError, SystemNotFoundError):
            pass
        if snapshot() != base:
            problems.append('remove with unhashable id changed state')
    if step(m) != ['b', 'a', 'c']:
        problems.append(f'order after rejections {LOG}')
    report('05 rejected registrations / removals change nothing', not problems, '; '.join(problems))


# ---------------------------------------------------------------------------------------------------------------------
# 6. re-registration between timesteps counts as new (same priority -> goes behind its equals; changed priority)
# ---------------------------------------------------------------------------------------------------------------------
@experiment
def exp06_reregistration_between_steps():
    m = Model()
    a, b, c, d = Rec('a', m, 0), Rec('b', m, 0), Rec('c', m, 0), Rec('d', m, 3)
    for s in (a, b, c, d):
        m.systems.add_system(s)
    problems = []
    if step(m) != ['d', 'a', 'b', 'c']:
        problems.append(str(LOG))
    m.systems.remove_system('a')
    m.systems.add_system(a)
    if step(m) != ['d', 'b', 'c', 'a']:
        problems.append(str(LOG))
    m.systems.remove_system('d')
    d.priority = 0
    m.systems.add_system(d)
    if step(m) != ['b', 'c', 'a', 'd']:
        problems.append(str(LOG))
    # a different object under the recycled id
    m.systems.remove_system('b')
    m.systems.add_system(Rec('b', m, 0))
    if step(m) != ['c', 'a', 'd', 'b']:
        problems.append(str(LOG))
    report('06 re-registration between timesteps counts as newly registered', not problems, '; '.join(problems))


# ---------------------------------------------------------------------------------------------------------------------
# 7. operations issued from inside a running timestep
# ---------------------------------------------------------------------------------------------------------------------
@experiment
def exp07a_in_step_benign():
    problems = []
    # self removal, removal of a later system, removal of an earlier system, adding higher / lower priority systems
    m = Model()

    def act_a(s):
        if m.systems.timestep == 0:
            s.clean_up()                       # remove itself
            m.systems.remove_system('c')       # remove a later one
            m.systems.add_system(Rec('hi', m, 100))
            m.systems.add_system(Rec('lo', m, -100))
            m.systems.add_system(Rec('mid', m, 0))

    a, b, c, d = Rec('a', m, 5, action=act_a), Rec('b', m, 0), Rec('c', m, 0), Rec('d', m, 0)
    for s in (a, b, c, d):
        m.systems.add_system(s)
    got0 = step(m)
    got1 = step(m)
    # in step 0 the systems that run must be in a legal order; new systems are allowed to wait for the next step
    if [x for x in got0 if x in ('a', 'b', 'd')] != ['a', 'b', 'd'] or 'c' in got0:
        problems.append(f'step0 {got0}')
    if got1 != ['hi', 'b', 'd', 'mid', 'lo']:
        problems.append(f'step1 {got1}')
    # replacing a later system by a NEW object with the same id
    m = Model()

    def act_r(s):
        if m.systems.timestep == 0:
            m.systems.remove_system('y')
            m.systems.add_system(Rec('y', m, 0))

    x, y, z = Rec('x', m, 0, action=act_r), Rec('y', m, 0), Rec('z', m, 0)
    for s in (x, y, z):
        m.systems.add_system(s)
    got0, got1 = step(m), step(m)
    if got0 not in (['x', 'z'], ['x', 'z', 'y']) or got1 != ['x', 'z', 'y']:
        problems.append(f'replace by new object: {got0} {got1}')
    # re-registering an EARLIER system (it already ran) and the running system itself: nobody runs twice
    m = Model()

    def act_e(s):
        if m.systems.timestep == 0:
            m.systems.remove_system('e1')
            m.systems.add_system(e1)
            m.systems.remove_system('e2')
            s.priority = 7
            m.systems.add_system(s)

    e1, e2, e3 = Rec('e1', m, 0), Rec('e2', m, 0, action=act_e), Rec('e3', m, 0)
    for s in (e1, e2, e3):
        m.systems.add_system(s)
    got0, got1 = step(m), step(m)
    if got0 != ['e1', 'e2', 'e3'] or got1 != ['e2', 'e3', 'e1']:
        problems.append(f're-register earlier/self: {got0} {got1}')
    report('07a in-timestep: self-removal, removing others, adding new systems, replacing by a new object',
           not problems, '; '.join(problems))


@experiment
def exp07b_in_step_reregister_same_priority():
    # A, B, C all priority 0, registered in that order.  While A runs (timestep 0) it removes B and registers B again.
    # From that moment B is "newly registered", i.e. it is registered AFTER C.
    m = Model()
    b, c = Rec('B', m, 0), Rec('C', m, 0)

    def act(s):
        if m.systems.timestep == 0:
            m.systems.remove_system('B')
            m.systems.add_system(b)

    a = Rec('A', m, 0, action=act)
    for s in (a, b, c):
        m.systems.add_system(s)
    got0 = step(m)
    queue = [s.id for s in m.systems.execution_queue]
    got1 = step(m)
    ok = got0 in (['A', 'C', 'B'], ['A', 'C'])   # B behind C, or B waits for the next timestep
    report('07b in-timestep: a system removes a later equal-priority system and registers the same object again',
           ok,
           'repro: A,B,C (all priority 0) registered in that order; A.execute() does\n'
           '       model.systems.remove_system("B"); model.systems.add_system(B)   (same object B)\n'
           f'observed: timestep 0 ran {got0} although the registration order is now {queue};\n'
           f'          (timestep 1 ran {got1})\n'
           'expected: B is newly registered, hence after C: ["A","C","B"] (or B first runs in the next timestep)')


@experiment
def exp07c_in_step_reregister_new_priority():
    # A(5), B(3), C(1).  While A runs it removes C and registers C again with priority 4 (set while unregistered).
    m = Model()
    b, c = Rec('B', m, 3), Rec('C', m, 1)

    def act(s):
        if m.systems.timestep == 0:
            m.systems.remove_system('C')
            c.priority = 4
            m.systems.add_system(c)

    a = Rec('A', m, 5, action=act)
    for s in (a, b, c):
        m.systems.add_system(s)
    got0 = step(m)
    prios = {s.id: s.priority for s in (a, b, c)}
    ran = [prios[i] for i in got0]
    ok = ran == sorted(ran, reverse=True)
    report('07c in-timestep: a system re-registers a later system (same object) with a higher priority',
           ok,
           'repro: A(prio 5), B(3), C(1); A.execute() does remove_system("C"); C.priority = 4; add_system(C)\n'
           f'observed: timestep 0 ran {got0} with priorities {ran}  -> not descending (C=4 ran after B=3)\n'
           'expected: ["A","C","B"] or ["A","B"] (C waiting for the next timestep); timestep 1 does run A,C,B')


@experiment
def exp07d_in_step_swap():
    # swap two later equals
    m = Model()
    b, c = Rec('B', m, 0), Rec('C', m, 0)

    def act(s):
        if m.systems.timestep == 0:
            m.systems.remove_system('B')
            m.systems.remove_system('C')
            m.systems.add_system(c)
            m.systems.add_system(b)

    a = Rec('A', m, 1, action=act)
    for s in (a, b, c):
        m.systems.add_system(s)
    got0 = step(m)
    ok = got0 in (['A', 'C', 'B'], ['A'])
    report('07d in-timestep: a system removes two later equals and registers them in the opposite order', ok,
           f'observed timestep 0: {got0}; registration order is now A, C, B  (same root cause as 07b)')


@experiment
def exp07e_nested_timestep():
    m = Model()
    depth = [0]

    def act(s):
        if depth[0] == 0:
            depth[0] += 1
            m.systems.execute_systems()     # a whole nested timestep
            depth[0] -= 1

    a, b, c = Rec('a', m, 1), Rec('b', m, 0, action=act), Rec('c', m, -1)
    for s in (c, b, a):
        m.systems.add_system(s)
    got = step(m)
    # outer: a b [inner: a b c] c
    report('07e nested timestep started from inside a system', got == ['a', 'b', 'a', 'b', 'c', 'c'], str(got))


# ---------------------------------------------------------------------------------------------------------------------
# 8. exception in a system mid-timestep, then continue; complete() mid-timestep; completed model
# ---------------------------------------------------------------------------------------------------------------------
@experiment
def exp08_errors_and_completion():
    problems = []
    m = Model()
    boom = [True]

    def act(s):
        if boom[0]:
            boom[0] = False
            raise RuntimeError('boom')

    a, b, c = Rec('a', m, 2), Rec('b', m, 1, action=act), Rec('c', m, 0)
    for s in (c, a, b):
        m.systems.add_system(s)
    LOG.clear()
    try:
        m.execute()
    except RuntimeError:
        pass
    if LOG != ['a', 'b']:
        problems.append(f'aborted step ran {LOG}')
    if step(m) != ['a', 'b', 'c']:
        problems.append(f'after abort {LOG}')
    # complete in the middle
    m = Model()
    a, b, c = Rec('a', m, 2), Rec('b', m, 1, action=lambda s: m.complete()), Rec('c', m, 0)
    for s in (a, b, c):
        m.systems.add_system(s)
    if step(m) != ['a', 'b']:
        problems.append(f'complete mid-step {LOG}')
    if step(m) != []:
        problems.append('completed model ran systems')
    try:
        m.systems.execute_systems(throw_error=True)
        problems.append('no ModelCompleteError')
    except ModelCompleteError:
        pass
    # add/remove on a completed model still keep the queue ordered
    m.systems.remove_system('a')
    m.systems.add_system(a)
    m.systems.add_system(Rec('z', m, 1))
    if [s.id for s in m.systems.execution_queue] != ['a', 'b', 'z', 'c']:
        problems.append(f'queue on completed model {[s.id for s in m.systems.execution_queue]}')
    report('08 exception mid-timestep, complete() mid-timestep, operations on a completed model', not problems,
           '; '.join(problems))


# ---------------------------------------------------------------------------------------------------------------------
# 9. start / end / frequency: the subset that runs keeps the order
# ---------------------------------------------------------------------------------------------------------------------
@experiment
def exp09_start_end_frequency():
    rnd = random.Random(3)
    bad = None
    for trial in range(60):
        m = Model()
        reg = []
        for i in range(8):
            s = Rec(f'f{i}', m, rnd.choice([-1, 0, 0, 1]), frequency=rnd.choice([1, 2, 3, -2]),
                    start=rnd.choice([0, 1, 3]), end=rnd.choice([2, 5, sys.maxsize]))
            m.systems.add_system(s)
            reg.append(s)
        for t in range(8):
            got = step(m)
            exp = [i for i in expected_order(reg) if i in got]
            if got != exp or len(set(got)) != len(got):
                bad = (trial, t, got, exp)
                break
        if bad:
            break
    report('09 start/end/frequency windows: systems that do run keep priority/registration order', bad is None,
           str(bad or ''))


# ---------------------------------------------------------------------------------------------------------------------
# 10. several models alive at once; one system object registered with two models; foreign model references
# ---------------------------------------------------------------------------------------------------------------------
@experiment
def exp10_many_models():
    problems = []
    m1, m2 = Model(), Model()
    shared = Rec('s', m1, 0)
    x1, y1 = Rec('x', m1, 0), Rec('y', m1, 1)
    x2, y2 = Rec('x', m2, 1), Rec('y', m2, 0)
    for s in (x1, shared, y1):
        m1.systems.add_system(s)
    for s in (shared, x2, y2):
        m2.systems.add_system(s)
    if step(m1) != ['y', 'x', 's']:
        problems.append(f'm1 {LOG}')
    if step(m2) != ['x', 's', 'y']:
        problems.append(f'm2 {LOG}')
    m1.systems.remove_system('s')
    m1.systems.add_system(shared)
    if step(m2) != ['x', 's', 'y'] or step(m1) != ['y', 'x', 's']:
        problems.append('cross talk between models')
    # clean_up() of a system whose .model is another model acts on that other model (by id) - it is an ordinary
    # removal there, order in both models must still be right
    shared.clean_up()   # shared.model is m1
    if step(m1) != ['y', 'x'] or step(m2) != ['x', 's', 'y']:
        problems.append('clean_up of shared system')
    report('10 several models, one system object registered with two models', not problems, '; '.join(problems))


# ---------------------------------------------------------------------------------------------------------------------
# 11. deepcopy / pickle of a model keep the order; subclasses of Model / SystemManager-using code
# ---------------------------------------------------------------------------------------------------------------------
class PRec(System):
    """picklable recorder: logs into a list stored on itself"""

    def __init__(self, id, model, priority, sink):
        super().__init__(id, model, priority)
        self.sink = sink

    def execute(self):
        self.sink.append(self.id)


@experiment
def exp11_copy_pickle():
    problems = []
    m = Model()
    sink = []
    reg = [PRec(f'p{i}', m, p, sink) for i, p in enumerate([0, 3, 0, -2, 3, 0])]
    for s in reg:
        m.systems.add_system(s)
    m.systems.remove_system('p0')
    m.systems.add_system(reg[0])
    exp = ['p1', 'p4', 'p2', 'p5', 'p0', 'p3']
    for label, clone in (('deepcopy', copy.deepcopy(m)), ('pickle', pickle.loads(pickle.dumps(m)))):
        clone.execute()
        got = clone.systems['p1'].sink
        if got != exp:
            problems.append(f'{label}: {got}')
        late = PRec('late', clone, 0, got)
        clone.systems.add_system(late)
        del got[:]
        clone.execute()
        if got != exp[:-1] + ['late', 'p3']:
            problems.append(f'{label} after add: {got}')
    report('11 deepcopy / pickle round trip of a model keeps order (and later registrations go to the right place)',
           not problems, '; '.join(problems))


# ---------------------------------------------------------------------------------------------------------------------
# 12. System subclasses with odd dunder methods: __bool__ False, __len__ 0, unhashable, value equality
# ---------------------------------------------------------------------------------------------------------------------
class FalsySystem(Rec):
    __hash__ = None

    def __bool__(self):
        return False

    def __len__(self):
        return 0


@experiment
def exp12a_falsy_unhashable_systems():
    m = Model()
    reg = [FalsySystem(f'q{i}', m, p) for i, p in enumerate([0, 1, 0, -1, 1])]
    for s in reg:
        m.systems.add_system(s)
    ok = step(m) == expected_order(reg)
    m.systems.remove_system('q1')
    m.systems.add_system(reg[1])
    reg.append(reg.pop(1))
    ok = ok and step(m) == expected_order(reg)
    report('12a systems that are falsy (__bool__/__len__) and unhashable', ok, str(LOG))


@dataclass
class DataSystem(System):
    """A System written as a dataclass: @dataclass generates __eq__ comparing the dataclass fields (here: speed)."""
    speed: int = 1

    def __init__(self, id, model, priority=0, speed=1):
        System.__init__(self, id, model, priority)
        self.speed = speed

    def execute(self):
        LOG.append(self.id)


@experiment
def exp12b_value_equal_systems_dropped():
    m = Model()
    a, b = DataSystem('a', m, 0), DataSystem('b', m, 0)
    m.systems.add_system(a)
    m.systems.add_system(b)
    got = step(m)
    ok = got == ['a', 'b']
    if ok:
        report('12b two value-equal systems (dataclass __eq__) with different ids and equal priority', True)
        return
    note('12b (symptom of 12c, not counted separately: no wrong ORDER yet, a registered system just never runs)',
           'repro: @dataclass class DataSystem(System) (field speed=1); a=DataSystem("a",m,0); b=DataSystem("b",m,0);\n'
           '       add_system(a); add_system(b); m.execute()\n'
           f'observed: ran {got}; systems dict has {list(m.systems.systems)} but execution_queue has '
           f'{[s.id for s in m.systems.execution_queue]}\n'
           'expected: ["a","b"] -- add_system accepted "b" (no error) but never queued it, because\n'
           '          "if s not in self.execution_queue" is an ==-based test')


@experiment
def exp12c_value_equal_systems_order():
    m = Model()
    b, c = DataSystem('b', m, 1, speed=1), DataSystem('c', m, 1, speed=2)
    a = DataSystem('a', m, 2, speed=1)          # a == b (same dataclass fields), different id and priority
    m.systems.add_system(b)
    m.systems.add_system(c)
    m.systems.add_system(a)                     # queue a, b, c
    first = step(m)
    m.systems.remove_system('b')                # list.remove() drops the first element == b, which is a
    second = step(m)
    m.systems.add_system(b)                     # re-register b: must now come after c
    third = step(m)
    ok = first == ['a', 'b', 'c'] and second == ['a', 'c'] and third == ['a', 'c', 'b']
    report('12c value-equal systems: removing one un-queues the other; the re-registered one keeps its old place', ok,
           'repro: b=DataSystem("b",m,1,speed=1); c=DataSystem("c",m,1,speed=2); a=DataSystem("a",m,2,speed=1)  (a == b)\n'
           '       add b, c, a; execute; remove_system("b"); execute; add_system(b); execute\n'
           f'observed: {first} / {second} / {third}\n'
           'expected: ["a","b","c"] / ["a","c"] / ["a","c","b"]  -- "a" silently stops running and the\n'
           '          re-registered "b" runs before "c" although it was registered after it')


# ---------------------------------------------------------------------------------------------------------------------
# 13. Collectors (default priority -1) and the JSON decoder register in file order
# ---------------------------------------------------------------------------------------------------------------------
class LogCollector(Collector):
    def collect(self):
        LOG.append(self.id)


class DecModel(Model):
    @staticmethod
    def decode(params):
        return DecModel()


class DecSystem(Rec):
    @staticmethod
    def decode(params):
        return DecSystem(params['id'], params['model'], params['priority'])


@experiment
def exp13_collectors_and_decoder():
    problems = []
    m = Model()
    reg = [LogCollector('c1', m), Rec('s0', m, 0), LogCollector('c2', m), Rec('s-1', m, -1), Rec('s-2', m, -2),
           LogCollector('c0', m, priority=0)]
    ac = AgentCollector(m, lambda agent: None)
    for s in reg:
        m.systems.add_system(s)
    m.systems.add_system(ac)
    if step(m) != ['s0', 'c0', 'c1', 'c2', 's-1', 's-2']:
        problems.append(f'collectors {LOG}')
    if [s.id for s in m.systems.execution_queue] != ['s0', 'c0', 'c1', 'c2', 's-1', 'AgentCollector', 's-2']:
        problems.append(f'queue {[s.id for s in m.systems.execution_queue]}')
    spec = {'model': {'name': 'DecModel', 'module': __name__, 'params': {}},
            'systems': [{'name': 'DecSystem', 'module': __name__, 'params': {'id': f'd{i}', 'priority': p}}
                        for i, p in enumerate([0, 2, 0, -1, 2, 0])],
            'agents': []}
    with tempfile.NamedTemporaryFile('w', suffix='.json', delete=False, newline='\r\n') as fh:
        fh.write(json.dumps(spec, indent=1))
        path = fh.name
    try:
        dm = Decode.JsonDecoder().decode(path)
    finally:
        os.unlink(path)
    if step(dm) != ['d1', 'd4', 'd0', 'd2', 'd5', 'd3']:
        problems.append(f'decoder {LOG}')
    report('13 collectors (default priority -1) among systems; JsonDecoder registers in file order (CRLF file)',
           not problems, '; '.join(problems))


# ---------------------------------------------------------------------------------------------------------------------
# 14. many systems
# ---------------------------------------------------------------------------------------------------------------------
@experiment
def exp14_many_systems():
    rnd = random.Random(11)
    m = Model()
    reg = [Rec(i, m, rnd.randrange(-5, 6)) for i in range(1500)]
    for s in reg:
        m.systems.add_system(s)
    for s in rnd.sample(reg, 400):
        m.systems.remove_system(s.id)
        reg.remove(s)
        if rnd.random() < 0.5:
            m.systems.add_system(s)
            reg.append(s)
    report('14 1500 systems, 400 removals, ~200 re-registrations', step(m) == expected_order(reg))


# ---------------------------------------------------------------------------------------------------------------------
# 15. hash-seed independence (sub-processes with different PYTHONHASHSEED run experiment 2's histories)
# ---------------------------------------------------------------------------------------------------------------------
def child_env(**extra):
    env = dict(os.environ)
    env['PYTHONPATH'] = HERE + os.pathsep + env.get('PYTHONPATH', '')
    env.update(extra)
    return env


@experiment
def exp15_hash_seed():
    outs = set()
    for seed in ('0', '1', '4242'):
        p = subprocess.run([sys.executable, os.path.abspath(__file__), '--digest'], env=child_env(PYTHONHASHSEED=seed),
                           capture_output=True, text=True, timeout=300)
        outs.add(p.stdout.strip())
    report('15 identical run orders under PYTHONHASHSEED=0/1/4242 (string ids)', len(outs) == 1 and '' not in outs,
           str(outs))


# ---------------------------------------------------------------------------------------------------------------------
# 16. real multiprocessing: batch_run with processes=2, the order is observed inside the workers
# ---------------------------------------------------------------------------------------------------------------------
class OrderCollector(Collector):
    def collect(self):
        self.records.append(list(self.model.order_log))
        del self.model.order_log[:]


class BatchModel(Model):
    __slots__ = ['order_log']

    def __init__(self, perm=0):
        super().__init__()
        self.order_log = []
        prios = [1, 0, 0, -1, 1]
        order = list(itertools.permutations(range(5)))[perm]
        for i in order:
            self.systems.add_system(Rec(f'b{i}', self, prios[i], log=self.order_log))
        # re-register the first registered one
        first = self.systems[f'b{order[0]}']
        self.systems.remove_system(first.id)
        self.systems.add_system(first)
        self.systems.add_system(OrderCollector('oc', self, priority=-10))


def batch_child():
    perms = list(range(0, 120, 7))
    res = Batching.batch_run(BatchModel, {'perm': perms}, collectors='oc', processes=2, max_timesteps=2)
    all_perms = list(itertools.permutations(range(5)))
    prios = [1, 0, 0, -1, 1]
    valid = set()
    for p in perms:
        order = list(all_perms[p])
        order = order[1:] + order[:1]
        valid.add(tuple(f'b{i}' for i in sorted(order, key=lambda i: -prios[i])))
    bad = [r for r in res if len(r) != 2 or any(tuple(x) not in valid for x in r)]
    seen = {tuple(r[0]) for r in res}
    print('BATCH', len(res), len(bad), seen == valid)


@experiment
def exp16_multiprocessing():
    try:
        p = subprocess.run([sys.executable, os.path.abspath(__file__), '--batch'], env=child_env(),
                           capture_output=True, text=True, timeout=120)
    except subprocess.TimeoutExpired:
        note('16 batch_run with processes=2', 'timed out after 120 s (not an ordering result)')
        return
    out = p.stdout.strip().splitlines()
    ok = bool(out) and out[-1] == 'BATCH 18 0 True'
    report('16 batch_run(processes=2): order inside worker processes', ok, (p.stdout + p.stderr)[-500:] if not ok else '')


# ---------------------------------------------------------------------------------------------------------------------
# 17. Model subclasses / replaced environment / timestep alias do not influence ordering
# ---------------------------------------------------------------------------------------------------------------------
class FalsyModel(Model):
    def __len__(self):
        return 0


@experiment
def exp17_model_variants():
    from ECAgent.Environments import GridWorld
    problems = []
    m = FalsyModel(seed=0)
    m.set_environment(GridWorld(m, 3, 3))
    reg = [Rec(f'm{i}', m, p) for i, p in enumerate([0, 0, 1, -1, 1])]
    for s in reg:
        m.systems.add_system(s)
    if step(m, 3) != expected_order(reg) * 3:
        problems.append(str(LOG))
    if m.timestep != 3:
        problems.append('timestep')
    report('17 Model subclass with __len__ == 0, replaced environment, execute(n=3)', not problems, '; '.join(problems))


# ---------------------------------------------------------------------------------------------------------------------
def main():
    for fn in EXPERIMENTS:
        run_experiment(fn)
    print()
    print(f'{len(VIOLATIONS)} violation(s) found' if VIOLATIONS else 'no violation found')
    for name, _ in VIOLATIONS:
        print('  -', name)
    return 1 if VIOLATIONS else 0


if __name__ == '__main__':
    if '--digest' in sys.argv:
        print(hashlib.sha256(''.join(random_history(s) for s in range(40)).encode()).hexdigest())
        sys.exit(0)
    if '--batch' in sys.argv:
        batch_child()
        sys.exit(0)
    sys.exit(main())
