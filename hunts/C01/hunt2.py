"""Second-pass bug hunt for the property

    "Systems run in descending priority, registration order among equals"

Run with:  cd /tmp/wt-C01-i && PYTHONPATH=/tmp/wt-C01-i /venv/bin/python hunt.py

Every experiment prints OK or a description of the violation.  Exit status is 1 if at least one genuine, in-scope
violation was found, otherwise 0.  Observations that are outside the stated scope are printed as NOTE and not counted.
Only the public API is used (Model, System, SystemManager.add_system / remove_system / execute_systems, the documented
attributes ``systems`` and ``execution_queue``, Collectors, Decode, Batching).
"""
import copy
import itertools
import json
import os
import pickle
import random
import subprocess
import sys
import tempfile
import multiprocessing

import ECAgent
from ECAgent.Core import Model, System, SystemNotFoundError, ModelCompleteError
from ECAgent.Collectors import Collector, AgentCollector
from ECAgent.Decode import JsonDecoder, IDecodable
from ECAgent.Batching import batch_run

VIOLATIONS = []
NOTES = []


def report(name, problems):
    if problems:
        VIOLATIONS.append(name)
        print(f"[VIOLATION] {name}")
        for p in problems[:5]:
            print(f"      {p}")
    else:
        print(f"[OK]        {name}")


def note(name, text):
    NOTES.append(name)
    print(f"[NOTE]      {name}: {text}")


class Rec(System):
    """A system that appends its id to a shared log when it runs."""
    __slots__ = ['log', 'action']

    def __init__(self, id, model, log, priority=0, frequency=1, start=0, end=sys.maxsize, action=None):
        super().__init__(id, model, priority, frequency, start, end)
        self.log = log
        self.action = action

    def execute(self):
        self.log.append(self.id)
        if self.action is not None:
            self.action(self)


class Ref:
    """Reference model: the specification, written down as directly as possible."""

    def __init__(self):
        self.entries = []  # (id, priority_as_python_int, registration_sequence_number)
        self.seq = 0

    def ids(self):
        return [e[0] for e in self.entries]

    def add(self, sid, prio):
        if sid in self.ids():
            return False
        self.entries.append((sid, prio, self.seq))
        self.seq += 1
        return True

    def remove(self, sid):
        if sid not in self.ids():
            return False
        self.entries = [e for e in self.entries if e[0] != sid]
        return True

    def order(self):
        return [e[0] for e in sorted(self.entries, key=lambda e: (-e[1], e[2]))]


def snapshot(model):
    return list(model.systems.systems.items()), list(model.systems.execution_queue), model.systems.timestep


def same_snapshot(a, b):
    return (len(a[0]) == len(b[0]) and all(k1 == k2 and v1 is v2 for (k1, v1), (k2, v2) in zip(a[0], b[0]))
            and len(a[1]) == len(b[1]) and all(x is y for x, y in zip(a[1], b[1])) and a[2] == b[2])


# ---------------------------------------------------------------------------------------------------------------------
def exp_permutations():
    """Every permutation of a multiset of priorities (positive, zero, negative, repeated)."""
    problems = []
    prios = [3, 0, 0, -2, 0, 1, 1]
    for perm in itertools.permutations(range(len(prios))):
        m, log, ref = Model(), [], Ref()
        for k in perm:
            m.systems.add_system(Rec(f's{k}', m, log, prios[k]))
            ref.add(f's{k}', prios[k])
        m.execute()
        if log != ref.order():
            problems.append(f"registration order {perm}: ran {log}, expected {ref.order()}")
            break
    report("01 all 5040 registration orders of priorities [3,0,0,-2,0,1,1]", problems)


def exp_random_histories():
    """Random histories of add / remove / rejected add / rejected remove / timestep against the reference model."""
    problems = []
    rng = random.Random(20260927)
    for h in range(1500):
        m, log, ref = Model(), [], Ref()
        pool = [f'id{k}' for k in range(7)]
        objects = {}
        for step in range(70):
            op = rng.random()
            sid = rng.choice(pool)
            if op < 0.40:
                prio = rng.choice([-3, -1, 0, 0, 1, 1, 2, 10 ** 30, -10 ** 30, True, False])
                reuse = sid in objects and rng.random() < 0.5 and sid not in m.systems.systems
                if reuse:  # the same object is registered again, possibly with a priority chosen while unregistered
                    s = objects[sid]
                    s.priority = prio
                else:
                    s = Rec(sid, m, log, prio)
                before = snapshot(m)
                try:
                    m.systems.add_system(s)
                    ok = True
                except KeyError:
                    ok = False
                if ok:
                    objects[sid] = s
                if ok != ref.add(sid, int(prio)):
                    problems.append(f"history {h} op {step}: add({sid}) accepted={ok} but the reference disagrees")
                if not ok and not same_snapshot(before, snapshot(m)):
                    problems.append(f"history {h} op {step}: rejected add({sid}) changed the manager")
            elif op < 0.70:
                before = snapshot(m)
                try:
                    m.systems.remove_system(sid)
                    ok = True
                except SystemNotFoundError:
                    ok = False
                if ok != ref.remove(sid):
                    problems.append(f"history {h} op {step}: remove({sid}) accepted={ok} but the reference disagrees")
                if not ok and not same_snapshot(before, snapshot(m)):
                    problems.append(f"history {h} op {step}: rejected remove({sid}) changed the manager")
            else:
                del log[:]
                m.execute()
                if log != ref.order():
                    problems.append(f"history {h} op {step}: ran {log}, expected {ref.order()}")
            if [s.id for s in m.systems.execution_queue] != ref.order():
                problems.append(f"history {h} op {step}: queue {[s.id for s in m.systems.execution_queue]}, "
                                f"expected {ref.order()}")
            if problems:
                break
        if problems:
            break
    report("02 1500 random histories (add / remove / duplicate add / unknown remove / re-register / timestep)", problems)


def exp_integer_types():
    """bool, numpy fixed-width ints of mixed width and signedness, huge Python ints: all are integers."""
    problems = []
    try:
        import numpy as np
    except ImportError:  # pragma: no cover
        np = None
    values = [True, False, 0, -0, 1, -1, 2 ** 70, -2 ** 70, 2 ** 63, -2 ** 63 - 1, 2 ** 53 + 1, 2 ** 53]
    if np is not None:
        values += [np.int8(-5), np.uint8(200), np.int16(200), np.int64(2 ** 63 - 1), np.uint64(2 ** 64 - 1),
                   np.uint64(2 ** 63 + 1), np.int64(-2 ** 63), np.int32(0), np.uint64(0), np.int64(2 ** 53 + 1),
                   np.int64(1)]  # numpy.bool_ is deliberately absent: it is not an integer type, see note N4
    rng = random.Random(7)
    for trial in range(400):
        chosen = [rng.choice(values) for _ in range(9)]
        m, log, ref = Model(), [], Ref()
        try:
            for k, p in enumerate(chosen):
                m.systems.add_system(Rec(f's{k}', m, log, p))
                ref.add(f's{k}', int(p))
            m.execute()
        except Exception as e:  # a comparison that raises would leave a half-registered system behind
            problems.append(f"priorities {chosen!r}: {type(e).__name__}: {e}")
            break
        if log != ref.order():
            problems.append(f"priorities {chosen!r}: ran {log}, expected {ref.order()}")
            break
    report("03 bool / numpy ints of mixed width+signedness / ints beyond 64 bit as priorities", problems)


def exp_rejections():
    """A rejected registration or removal changes nothing - also for falsy and look-alike identifiers."""
    problems = []

    class StrSub(str):
        pass

    for ids in (['a', 'b', 'c'], ['', 'x', 'y'], [0, 1, 2], [None, 'n', 'o'], [StrSub('q'), 'r', 's'], [(), (1,), 'z']):
        m, log = Model(), []
        for k, sid in enumerate(ids):
            m.systems.add_system(Rec(sid, m, log, [0, 5, 0][k]))
        m.execute()
        before = snapshot(m)
        expected = list(log)
        # Rejected registrations: another object, other priorities, the very same object again.
        for dup in (Rec(ids[0], m, log, 99), Rec(ids[0], m, log, -99), m.systems.systems[ids[0]],
                    Rec(ids[2], m, log, 5)):
            try:
                m.systems.add_system(dup)
                problems.append(f"ids {ids!r}: a second system with id {dup.id!r} was accepted")
            except KeyError:
                pass
            if not same_snapshot(before, snapshot(m)):
                problems.append(f"ids {ids!r}: rejected add_system({dup.id!r}) changed the manager")
        # Rejected removals
        for unknown in ('nope', 'A', ' ', 3, False if 0 not in ids else 'False', ('k',)):
            try:
                m.systems.remove_system(unknown)
                if unknown not in ids:
                    problems.append(f"ids {ids!r}: remove_system({unknown!r}) was accepted")
            except SystemNotFoundError:
                pass
            if unknown not in ids and not same_snapshot(before, snapshot(m)):
                problems.append(f"ids {ids!r}: rejected remove_system({unknown!r}) changed the manager")
        del log[:]
        m.execute()
        if log != expected:
            problems.append(f"ids {ids!r}: after rejected operations ran {log}, expected {expected}")
    # Identifiers that are equal as dictionary keys count as 'already in use' (1 == 1.0 == True).
    m, log = Model(), []
    m.systems.add_system(Rec(1, m, log, 0))
    before = snapshot(m)
    for look_alike in (True, 1.0):
        try:
            m.systems.add_system(Rec(look_alike, m, log, 7))
            problems.append(f"id {look_alike!r} accepted although id 1 is in use")
        except KeyError:
            pass
        if not same_snapshot(before, snapshot(m)):
            problems.append(f"rejected add_system(id={look_alike!r}) changed the manager")
    # An identifier that cannot be looked up at all (unhashable) is an error, and must not change anything either.
    for bad in ([], {}):
        for call in (lambda: m.systems.add_system(Rec(bad, m, log, 3)), lambda: m.systems.remove_system(bad)):
            try:
                call()
                problems.append(f"unhashable id {bad!r} accepted")
            except TypeError:
                pass
            if not same_snapshot(before, snapshot(m)):
                problems.append(f"failed operation with unhashable id {bad!r} changed the manager")
    report("04 rejected add / remove change nothing (ids '', 0, None, str subclass, tuples, 1/True/1.0, unhashable)",
           problems)


def exp_rejections_inside_timestep():
    """Rejected operations issued by a running system: nothing changes, the rest of the timestep is unaffected."""
    problems = []
    for actor_pos in range(4):
        m, log = Model(), []
        outcome = []

        def act(me, m=m, log=log, outcome=outcome):
            before = snapshot(m)
            for call in (lambda: m.systems.add_system(Rec('s0', m, log, 100)),
                         lambda: m.systems.add_system(Rec('s3', m, log, -100)),
                         lambda: m.systems.add_system(me),
                         lambda: m.systems.remove_system('ghost')):
                try:
                    call()
                    outcome.append('accepted')
                except (KeyError, SystemNotFoundError):
                    pass
                if not same_snapshot(before, snapshot(m)):
                    outcome.append('changed')

        prios = [2, 1, 1, 0]
        for k in range(4):
            m.systems.add_system(Rec(f's{k}', m, log, prios[k], action=act if k == actor_pos else None))
        m.execute(3)
        if log != ['s0', 's1', 's2', 's3'] * 3 or outcome:
            problems.append(f"actor at position {actor_pos}: ran {log}, side effects {outcome}")
    report("05 rejected add / remove issued from inside a running timestep", problems)


def exp_mid_timestep_changes():
    """Accepted changes issued by a running system; every timestep must still be in order (same-object remove +
    re-register inside a timestep is deliberately left open and is not exercised here)."""
    problems = []
    counter = itertools.count()
    for actor_pos in range(5):
        for new_prio in (10, 3, 2, 1, 0, -1, -10):
            for victim in (None, 0, 1, 2, 3, 4):
                m, log, ref = Model(), [], Ref()
                prios = [3, 2, 2, 1, -1]
                fired = []

                def act(me, m=m, log=log, ref=ref, fired=fired, new_prio=new_prio, victim=victim):
                    if fired:
                        return
                    fired.append(1)
                    nid = f'n{next(counter)}'
                    m.systems.add_system(Rec(nid, m, log, new_prio))
                    ref.add(nid, new_prio)
                    if victim is not None:
                        m.systems.remove_system(f's{victim}')
                        ref.remove(f's{victim}')
                        # A different object under the id that was just freed counts as newly registered
                        m.systems.add_system(Rec(f's{victim}', m, log, prios[victim]))
                        ref.add(f's{victim}', prios[victim])

                for k in range(5):
                    m.systems.add_system(Rec(f's{k}', m, log, prios[k], action=act if k == actor_pos else None))
                    ref.add(f's{k}', prios[k])
                rank_before = {sid: i for i, sid in enumerate(ref.order())}
                m.execute()
                first = list(log)
                # Timestep with the change: whatever ran must be in descending priority order, no repeats
                if len(set(first)) != len(first) or [rank_before[s] for s in first if s in rank_before] != \
                        sorted(rank_before[s] for s in first if s in rank_before):
                    problems.append(f"actor {actor_pos}, new prio {new_prio}, victim {victim}: changing timestep ran "
                                    f"{first}")
                del log[:]
                m.execute()
                if log != ref.order():
                    problems.append(f"actor {actor_pos}, new prio {new_prio}, victim {victim}: next timestep ran "
                                    f"{log}, expected {ref.order()}")
    report("06 accepted add / remove / replace issued from inside a timestep (this and the next timestep in order)",
           problems)


class EqSys(Rec):
    """Compares equal to everything, is falsy, has length 0 and is unhashable."""
    __slots__ = []

    def __eq__(self, other):
        return True

    __hash__ = None

    def __bool__(self):
        return False

    def __len__(self):
        return 0


def exp_dunder_subclasses():
    problems = []
    rng = random.Random(3)
    for trial in range(200):
        m, log, ref = Model(), [], Ref()
        for step in range(40):
            sid = f'e{rng.randrange(6)}'
            if rng.random() < 0.6:
                p = rng.choice([-1, 0, 0, 1])
                try:
                    m.systems.add_system(EqSys(sid, m, log, p))
                    ok = True
                except KeyError:
                    ok = False
                if ok != ref.add(sid, p):
                    problems.append("add disagreement")
            else:
                try:
                    m.systems.remove_system(sid)
                    ok = True
                except SystemNotFoundError:
                    ok = False
                if ok != ref.remove(sid):
                    problems.append("remove disagreement")
            del log[:]
            m.execute()
            if log != ref.order():
                problems.append(f"trial {trial} op {step}: ran {log}, expected {ref.order()}")
                break
        if problems:
            break
    report("07 System subclasses with __eq__ -> True, __hash__ None, falsy __bool__ and __len__ 0", problems)


def exp_several_models():
    """Several models alive at once, the same ids, the same System object registered with two managers."""
    problems = []
    m1, m2 = Model(), Model()
    log1, log2, shared_log = [], [], []
    ref1, ref2 = Ref(), Ref()
    shared = Rec('shared', m1, shared_log, 0)
    plan = [('a', 1), ('b', 0), ('c', 0), ('d', -1)]
    for sid, p in plan:
        m1.systems.add_system(Rec(sid, m1, log1, p)); ref1.add(sid, p)
    for sid, p in reversed(plan):
        m2.systems.add_system(Rec(sid, m2, log2, -p)); ref2.add(sid, -p)
    m1.systems.add_system(shared); ref1.add('shared', 0)
    m2.systems.add_system(shared); ref2.add('shared', 0)
    m1.systems.remove_system('b'); ref1.remove('b')
    m2.systems.add_system(Rec('e', m2, log2, 0)); ref2.add('e', 0)
    for _ in range(2):
        del log1[:], log2[:], shared_log[:]
        m1.execute()
        m2.execute()
        if log1 != [s for s in ref1.order() if s != 'shared']:
            problems.append(f"model 1 ran {log1}, expected {ref1.order()}")
        if log2 != [s for s in ref2.order() if s != 'shared']:
            problems.append(f"model 2 ran {log2}, expected {ref2.order()}")
        if shared_log != ['shared', 'shared']:
            problems.append(f"shared system ran {shared_log}")
    if [s.id for s in m1.systems.execution_queue] != ref1.order() or \
            [s.id for s in m2.systems.execution_queue] != ref2.order():
        problems.append("queues differ from the reference")
    report("08 two models alive at once, same ids, one System object registered with both managers", problems)


def exp_completed_model():
    problems = []
    m, log, ref = Model(), [], Ref()

    def finish(me):
        me.model.complete()

    for sid, p, a in [('a', 0, None), ('b', 5, None), ('c', 0, finish), ('d', -1, None), ('e', 0, None)]:
        m.systems.add_system(Rec(sid, m, log, p, action=a)); ref.add(sid, p)
    m.execute()
    if log != ['b', 'a', 'c']:
        problems.append(f"timestep in which the model completes ran {log}, expected ['b', 'a', 'c']")
    # Registrations and removals on a completed model keep the order; nothing runs any more
    m.systems.remove_system('a'); ref.remove('a')
    m.systems.add_system(Rec('a', m, log, 0)); ref.add('a', 0)
    m.systems.add_system(Rec('f', m, log, 7)); ref.add('f', 7)
    del log[:]
    m.execute(2)
    try:
        m.systems.execute_systems(throw_error=True)
        problems.append("no ModelCompleteError")
    except ModelCompleteError:
        pass
    if log:
        problems.append(f"completed model ran {log}")
    if [s.id for s in m.systems.execution_queue] != ref.order():
        problems.append(f"queue {[s.id for s in m.systems.execution_queue]}, expected {ref.order()}")
    report("09 model completed in the middle of a timestep; add / remove on a completed model", problems)


class PRec(System):
    """Module-level, picklable recording system (log lives on the model's environment id list)."""

    def __init__(self, id, model, priority=0):
        super().__init__(id, model, priority)

    def execute(self):
        self.model.trace.append(self.id)


class TraceModel(Model):
    __slots__ = ['trace']

    def __init__(self, seed=None):
        super().__init__(seed)
        self.trace = []


def exp_copy_pickle():
    """A copied / pickled model keeps the order and keeps honouring it for later registrations and removals."""
    problems = []
    for how in ('deepcopy', 'pickle'):
        m, ref = TraceModel(), Ref()
        for sid, p in [('a', 0), ('b', 2), ('c', 0), ('d', -3), ('e', 2), ('f', 0)]:
            m.systems.add_system(PRec(sid, m, p)); ref.add(sid, p)
        m.systems.remove_system('c'); ref.remove('c')
        m.execute()
        try:
            clone = copy.deepcopy(m) if how == 'deepcopy' else pickle.loads(pickle.dumps(m))
        except Exception as e:
            note(f"10 {how} of a model", f"not supported ({type(e).__name__}: {e}); nothing to check")
            continue
        for target in (m, clone):  # both must continue identically
            target.systems.add_system(PRec('c', target, 0))
            target.systems.remove_system('a')
            target.systems.add_system(PRec('g', target, 2))
        ref.add('c', 0); ref.remove('a'); ref.add('g', 2)
        for target in (m, clone):
            del target.trace[:]
            target.execute()
            if target.trace != ref.order():
                problems.append(f"{how}: {'clone' if target is clone else 'original'} ran {target.trace}, expected "
                                f"{ref.order()}")
        if any(s.model is not clone for s in clone.systems.execution_queue):
            problems.append(f"{how}: a cloned system still points at the original model")
    report("10 deepcopy / pickle round trip of a model with systems, then more registrations and removals", problems)


class DModel(Model, IDecodable):
    __slots__ = ['trace']

    def __init__(self):
        super().__init__()
        self.trace = []

    @staticmethod
    def decode(params):
        return DModel()


class DSystem(System, IDecodable):
    def execute(self):
        self.model.trace.append(self.id)

    @staticmethod
    def decode(params):
        return DSystem(params['id'], params['model'], priority=params['priority'])


def exp_decoder():
    """Systems listed in a JSON model description (CRLF line ends, UTF-8 ids) are registered in list order."""
    problems = []
    spec = [('α', 0), ('b', 3), ('c', 0), ('d', -2), ('e', 3), ('f', 0)]
    data = {'model': {'name': 'DModel', 'module': __name__, 'params': {}},
            'systems': [{'name': 'DSystem', 'module': __name__, 'params': {'id': sid, 'priority': p}}
                        for sid, p in spec],
            'agents': []}
    ref = Ref()
    for sid, p in spec:
        ref.add(sid, p)
    with tempfile.TemporaryDirectory() as d:
        path = os.path.join(d, 'model.json')
        with open(path, 'w', newline='', encoding='utf-8') as f:
            f.write(json.dumps(data, indent=1, ensure_ascii=True).replace('\n', '\r\n'))
        m = JsonDecoder().decode(path)
    m.execute()
    if m.trace != ref.order():
        problems.append(f"decoded model ran {m.trace}, expected {ref.order()}")
    report("11 JsonDecoder: systems from a CRLF JSON file keep list order among equal priorities", problems)


class OrderCollector(Collector):
    def collect(self):
        self.records.append(list(self.model.trace))


class BatchModel(Model):
    __slots__ = ['trace']

    def __init__(self, shuffle_seed=0):
        super().__init__()
        self.trace = []
        spec = [('s%d' % k, p) for k, p in enumerate([0, 2, 0, -1, 2, 0, -1, 5])]
        random.Random(shuffle_seed).shuffle(spec)
        for sid, p in spec:
            self.systems.add_system(PRec(sid, self, p))
        self.systems.add_system(OrderCollector('order', self, priority=-10))
        ref = Ref()
        for sid, p in spec:
            ref.add(sid, p)
        self.trace.append(('expected', tuple(ref.order())))


def _batch_worker(conn, processes):
    try:
        conn.send(batch_run(BatchModel, {'shuffle_seed': list(range(8))}, collectors='order', processes=processes,
                            max_timesteps=2))
    except BaseException as e:  # pragma: no cover
        conn.send(e)


def exp_batching():
    """batch_run with processes=1 and processes=3 (real worker processes, guarded by a timeout)."""
    problems = []
    for processes in (1, 3):
        parent, child = multiprocessing.Pipe()
        p = multiprocessing.Process(target=_batch_worker, args=(child, processes))
        p.start()
        if not parent.poll(90):
            p.terminate()
            problems.append(f"processes={processes}: timed out")
            continue
        result = parent.recv()
        p.join(10)
        if isinstance(result, BaseException):
            problems.append(f"processes={processes}: {type(result).__name__}: {result}")
            continue
        if len(result) != 8:
            problems.append(f"processes={processes}: {len(result)} results instead of 8")
        for records in result:
            first = records[0]
            expected = list(first[0][1])
            if first[1:] != expected:
                problems.append(f"processes={processes}: ran {first[1:]}, expected {expected}")
    report("12 batch_run with processes=1 and processes=3: every worker's model runs in order", problems)


HASHSEED_SNIPPET = r"""
import sys
from ECAgent.Core import Model, System
log = []
class R(System):
    def execute(self):
        log.append(self.id)
m = Model()
for sid, p in [('zeta', 0), ('alpha', 0), ('mid', 1), ('Alpha', 0), ('', 0), ('omega', -1), ('beta', 1)]:
    m.systems.add_system(R(sid, m, p))
m.systems.remove_system('alpha'); m.systems.add_system(R('alpha', m, 0))
m.execute()
print('|'.join(log))
"""


def exp_hash_seed():
    problems = []
    outputs = set()
    for seed in ('0', '1', '4242', 'random'):
        env = dict(os.environ, PYTHONHASHSEED=seed, PYTHONPATH=os.path.dirname(os.path.dirname(ECAgent.__file__)))
        out = subprocess.run([sys.executable, '-c', HASHSEED_SNIPPET], env=env, capture_output=True, text=True,
                             timeout=60)
        if out.returncode != 0:
            problems.append(f"PYTHONHASHSEED={seed}: {out.stderr.strip()[-200:]}")
        outputs.add(out.stdout.strip())
    if outputs != {'mid|beta|zeta|Alpha||alpha|omega'}:
        problems.append(f"orders seen: {outputs}")
    report("13 order does not depend on the hash seed (string ids, 4 seeds)", problems)


def exp_eligibility():
    """start / end / frequency decide WHICH systems run; those that run are still in order, at every timestep."""
    problems = []
    rng = random.Random(11)
    for trial in range(200):
        m, log, ref = Model(), [], Ref()
        windows = {}
        for k in range(8):
            p = rng.choice([-1, 0, 0, 1])
            start, end, freq = rng.randrange(0, 4), rng.randrange(2, 9), rng.randrange(1, 4)
            m.systems.add_system(Rec(f's{k}', m, log, p, frequency=freq, start=start, end=end))
            ref.add(f's{k}', p)
            windows[f's{k}'] = (start, end, freq)
        for t in range(10):
            del log[:]
            m.execute()
            expected = [s for s in ref.order()
                        if windows[s][0] <= t <= windows[s][1] and (t - windows[s][0]) % windows[s][2] == 0]
            if log != expected:
                problems.append(f"trial {trial} timestep {t}: ran {log}, expected {expected}")
                break
            if t == 4:
                m.systems.remove_system('s3'); ref.remove('s3')
                m.systems.add_system(Rec('s3', m, log, 0)); ref.add('s3', 0); windows['s3'] = (0, sys.maxsize, 1)
        if problems:
            break
    report("14 start / end / frequency windows: the systems that do run are in order at every timestep", problems)


def exp_aliases_and_cleanup():
    """Deprecated camelCase aliases, System.clean_up(), and the library's own Collector defaults (priority -1)."""
    import warnings
    problems = []
    m, log, ref = Model(), [], Ref()
    with warnings.catch_warnings():
        warnings.simplefilter('ignore')
        for sid, p in [('a', 0), ('b', 1), ('c', 0), ('d', -1)]:
            m.systems.addSystem(Rec(sid, m, log, p)); ref.add(sid, p)
        coll = AgentCollector(m, lambda a: None, compositeFunc=lambda agents: log.append('AgentCollector'))
        m.systems.add_system(coll); ref.add('AgentCollector', -1)
        m.systems.removeSystem('a'); ref.remove('a')
        m.systems['c'].clean_up(); ref.remove('c')
        m.systems.addSystem(Rec('c', m, log, 0)); ref.add('c', 0)
        m.systems.addSystem(Rec('a', m, log, 0)); ref.add('a', 0)
        m.systems.executeSystems()
    if log != ref.order():
        problems.append(f"ran {log}, expected {ref.order()}")
    report("15 deprecated aliases, System.clean_up() then re-registration, AgentCollector default priority", problems)


def exp_exception_in_system():
    """A system that raises aborts the timestep; the order of the following timesteps is unaffected."""
    problems = []
    m, log, ref = Model(), [], Ref()
    armed = [True]

    def boom(me):
        if armed[0]:
            armed[0] = False
            me.model.systems.add_system(Rec('late', me.model, log, 1)); ref.add('late', 1)
            me.model.systems.remove_system('d'); ref.remove('d')
            raise RuntimeError('boom')

    for sid, p, a in [('a', 0, None), ('b', 1, None), ('c', 0, boom), ('d', 0, None), ('e', -1, None)]:
        m.systems.add_system(Rec(sid, m, log, p, action=a)); ref.add(sid, p)
    try:
        m.execute()
        problems.append("exception swallowed")
    except RuntimeError:
        pass
    if log != ['b', 'a', 'c']:
        problems.append(f"aborted timestep ran {log}")
    del log[:]
    m.execute()
    if log != ref.order():
        problems.append(f"after the aborted timestep ran {log}, expected {ref.order()}")
    report("16 a system raising in the middle of a timestep (after changing the system set)", problems)


def exp_priority_at_registration():
    """The priority that counts is the one the system has when it is registered: an unregistered system whose
    priority is changed and which is then registered again takes the place of the new priority."""
    problems = []
    m, log, ref = Model(), [], Ref()
    objs = {}
    for sid, p in [('a', 0), ('b', 1), ('c', 0), ('d', 2)]:
        objs[sid] = Rec(sid, m, log, p)
        m.systems.add_system(objs[sid]); ref.add(sid, p)
    for sid, newp in [('a', 2), ('d', 0), ('b', 0), ('c', 1), ('a', 1)]:
        m.systems.remove_system(sid); ref.remove(sid)
        objs[sid].priority = newp
        m.systems.add_system(objs[sid]); ref.add(sid, newp)
        del log[:]
        m.execute()
        if log != ref.order():
            problems.append(f"after re-registering {sid} with priority {newp}: ran {log}, expected {ref.order()}")
    report("17 same object re-registered (between timesteps) with a priority chosen while it was unregistered", problems)


def exp_large():
    """Many systems, few distinct priorities - long runs of equals, removals from the middle of the runs."""
    problems = []
    rng = random.Random(5)
    m, log, ref = Model(), [], Ref()
    for k in range(600):
        p = rng.choice([-1, 0, 1])
        m.systems.add_system(Rec(k, m, log, p)); ref.add(k, p)
    for k in rng.sample(range(600), 300):
        m.systems.remove_system(k); ref.remove(k)
    for k in rng.sample(range(600), 200):
        if k not in m.systems.systems:
            p = rng.choice([-1, 0, 1])
            m.systems.add_system(Rec(k, m, log, p)); ref.add(k, p)
    m.execute()
    if log != ref.order():
        problems.append("order differs from the reference")
    report("18 600 systems over 3 priorities, 300 removals, ~100 re-registrations", problems)


def out_of_scope_notes():
    # (a) priority changed WHILE registered - the scope fixes priorities at registration time
    m, log = Model(), []
    a, b = Rec('a', m, log, 5), Rec('b', m, log, 3)
    m.systems.add_system(a); m.systems.add_system(b)
    a.priority = 0
    m.systems.add_system(Rec('c', m, log, 4))
    m.execute()
    note("N1 priority mutated while registered (outside the scope: priorities are fixed at registration)",
         f"ran {log}; the queue is not re-sorted and later insertions compare against the live attribute")
    # (b) non-integer priority: the comparison raises after the id was stored
    m, log = Model(), []
    m.systems.add_system(Rec('a', m, log, 0))
    try:
        m.systems.add_system(Rec('x', m, log, None))
        state = 'accepted'
    except TypeError:
        state = f"TypeError; 'x' in systems={'x' in m.systems.systems}, in queue=" \
                f"{any(s.id == 'x' for s in m.systems.execution_queue)}"
    note("N2 priority=None (outside the scope: integer priorities)", state)
    # (b') numpy.bool_ is no integer type (not numbers.Integral); numpy refuses to compare it with ints beyond 64 bit
    try:
        import numpy as np
        m, log = Model(), []
        m.systems.add_system(Rec('a', m, log, 2 ** 70))
        try:
            m.systems.add_system(Rec('x', m, log, np.bool_(True)))
            state = 'accepted'
        except OverflowError:
            state = f"OverflowError; 'x' in systems={'x' in m.systems.systems}, in queue=" \
                    f"{any(s.id == 'x' for s in m.systems.execution_queue)}"
        note("N4 priority=numpy.bool_(True) next to priority=2**70 (outside the scope: numpy.bool_ is not an integer)",
             state)
    except ImportError:  # pragma: no cover
        pass
    # (c) identifier changed while registered
    m, log = Model(), []
    a = Rec('a', m, log, 0)
    m.systems.add_system(a)
    a.id = 'renamed'
    m.execute()
    note("N3 id mutated while registered (outside the scope: the identifier is the registration key)",
         f"ran {log} (the renamed system is treated as removed)")


def main():
    print("ECAgent under test:", ECAgent.__file__)
    exp_permutations()
    exp_random_histories()
    exp_integer_types()
    exp_rejections()
    exp_rejections_inside_timestep()
    exp_mid_timestep_changes()
    exp_dunder_subclasses()
    exp_several_models()
    exp_completed_model()
    exp_copy_pickle()
    exp_decoder()
    exp_batching()
    exp_hash_seed()
    exp_eligibility()
    exp_aliases_and_cleanup()
    exp_exception_in_system()
    exp_priority_at_registration()
    exp_large()
    out_of_scope_notes()
    print()
    if VIOLATIONS:
        print(f"{len(VIOLATIONS)} genuine violation(s): {VIOLATIONS}")
        return 1
    print("No violation of the property found within its stated scope.")
    return 0


if __name__ == '__main__':
    sys.exit(main())
