"""StepGate - lets a harness issue operations WHILE a timestep of a model is in progress.

The step (`model.execute()`) runs in a second thread that parks inside a host system's execute(); the harness thread
then carries on with its scenario and finally releases the step. The hand-over is strict - at any instant exactly one
of the two threads runs - so the execution is as deterministic as a single thread: the "schedule" is the scenario's
choice of where the stretch inside the timestep begins and ends. From the package's point of view the operations are
calls made by a System during the timestep (the common ECS pattern "systems add / remove / move agents")."""
import threading

from ECAgent.Core import System

HOST_ID = "verif-step-host"


class _Host(System):
    def __init__(self, model, entered, leave):
        super().__init__(HOST_ID, model, priority=10 ** 9)
        self._entered, self._leave = entered, leave

    def execute(self):
        self._entered.set()
        self._leave.wait()


class StepGate:
    def __init__(self, ctx):
        self.ctx = ctx
        self.thread = None
        self.model = None
        self.exc = None
        ctx.in_step = False
        ctx.cleanups.append(self.abandon)

    def enter(self, model):
        """True if the harness now runs inside a timestep of `model`."""
        if self.thread is not None or model is None or not model.is_running() or model.systems[HOST_ID] is not None:
            return False
        entered, leave, done = threading.Event(), threading.Event(), threading.Event()
        model.systems.add_system(_Host(model, entered, leave))
        self.exc = None

        def run():
            try:
                model.execute()
            except BaseException as e:      # handed to the harness thread in leave()
                self.exc = e
            finally:
                done.set()

        t = threading.Thread(target=run, daemon=True)
        t.start()
        while not entered.wait(0.002):
            if done.is_set():
                break
        if not entered.is_set():            # the step ended without running the host (cannot happen in a running model)
            t.join()
            model.systems.remove_system(HOST_ID)
            return False
        self.thread, self.model, self._leave = t, model, leave
        self.ctx.in_step = True
        self.ctx.fault("schedule.ops_inside_timestep")
        self.ctx.probe("ops_from_inside_a_timestep")
        return True

    def leave(self):
        if self.thread is None:
            return
        self._leave.set()
        self.thread.join()
        self.thread = None
        self.ctx.in_step = False
        if self.model.systems[HOST_ID] is not None:
            self.model.systems.remove_system(HOST_ID)
        if self.exc is not None:
            e, self.exc = self.exc, None
            raise e

    def abandon(self):
        """Release a parked step without looking at its outcome (a violation is already being reported)."""
        if self.thread is not None:
            self._leave.set()
            self.thread.join(5)
            self.thread = None
            self.ctx.in_step = False
