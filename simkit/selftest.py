"""Self-tests of the machinery (DESIGN.md section 8).

determinism: for every claimed property, N run indices are executed in a pool of 16 workers in this
  interpreter and again in a pool of 3 workers in a FRESH interpreter under another PYTHONHASHSEED;
  per-run (scenario digest, trace digest, violation?) must be identical.
sensitivity: every mutant in /verif/mutants/*.json and every kept sub-agent change in
  /verif/seeded/*/patch.diff is applied to a scratch copy of the package (outside /repo and /verif),
  the quick check is run against the copy and must exit 1 with a reproducing replay; finally the
  unpatched tree must be green. Results go to evidence/sensitivity.json."""
import concurrent.futures as cf
import glob
import json
import multiprocessing as mp
import os
import shutil
import subprocess
import sys
import tempfile
import time

from . import core
from .runner import load_prop


def _digest_chunk(args):
    prop, seed, tier, idx = args
    mod = load_prop(prop)
    out = []
    for i in idx:
        sc = core.generate(mod, seed, i, tier)
        with core.alarm(120):
            o = core.run_one(mod, sc)
        out.append([i, core.digest(sc), o["digest"], o["violation"]["kind"] if o["violation"] else None])
    return out


def digests(prop, seed, tier, start, n, workers):
    ctx = mp.get_context("fork")
    idx = list(range(start, start + n))
    per = max(1, n // (workers * 2))
    chunks = [idx[i:i + per] for i in range(0, n, per)]
    res = []
    with cf.ProcessPoolExecutor(max_workers=workers, mp_context=ctx) as ex:
        for r in ex.map(_digest_chunk, [(prop, seed, tier, c) for c in chunks]):
            res.extend(r)
    return sorted(res)


def print_digests(props, seed, tier, start, n, workers):
    out = {}
    for p in props:
        out[p] = digests(p.upper(), seed, tier, start, n, workers)
    print("DIGESTS " + json.dumps(out))
    return 0


def determinism(props, seed, a):
    n = a.runs or 400
    bad = 0
    report = {}
    for p in props:
        t0 = time.time()
        mine = digests(p, seed, a.tier, 0, n, 16)
        env = dict(os.environ)
        env["PYTHONHASHSEED"] = "97531"
        env["VERIF_NO_REEXEC"] = "1"
        cp = subprocess.run([sys.executable, os.path.join(core.VERIF, "check"), p, "--digests", "--runs", str(n),
                             "--workers", "3", "--tier", a.tier], capture_output=True, text=True, env=env, timeout=3600)
        line = [ln for ln in cp.stdout.splitlines() if ln.startswith("DIGESTS ")]
        if cp.returncode != 0 or not line:
            print(f"HARNESS-ERROR determinism {p}: fresh interpreter failed: {cp.stdout[-800:]}{cp.stderr[-800:]}")
            bad += 1
            continue
        theirs = json.loads(line[0][8:])[p]
        diff = [(x, y) for x, y in zip(mine, theirs) if x != y]
        report[p] = {"runs": n, "mismatches": len(diff), "wall_s": round(time.time() - t0, 1)}
        print(f"determinism {p}: {n} runs x (16 workers, hashseed {os.environ.get('PYTHONHASHSEED')}) vs "
              f"(3 workers, fresh interpreter, hashseed 97531): mismatches={len(diff)}")
        if diff or len(mine) != len(theirs):
            print("  first mismatch:", diff[:1])
            bad += 1
    out = os.path.join(os.environ.get("VERIF_OUT", core.VERIF), "evidence", "determinism.json")
    os.makedirs(os.path.dirname(out), exist_ok=True)
    with open(out, "w") as f:
        json.dump({"seed": seed, "tier": a.tier, "result": report}, f, indent=1, sort_keys=True)
    return 2 if bad else 0


def _scratch_copy():
    base = tempfile.mkdtemp(prefix="ecagent-verif-", dir="/var/tmp")
    shutil.copytree(os.path.join(core.REPO, "ECAgent"), os.path.join(base, "ECAgent"),
                    ignore=shutil.ignore_patterns("__pycache__"))
    return base


def _run_check_on(copy, prop, out_dir, seed):
    env = dict(os.environ)
    env.update({"VERIF_REPO": copy, "VERIF_OUT": out_dir, "VERIF_SEED": str(seed)})
    env.pop("VERIF_NO_REEXEC", None)
    cp = subprocess.run([sys.executable, os.path.join(core.VERIF, "check"), prop, "--tier", "quick"],
                        capture_output=True, text=True, env=env, timeout=3600)
    return cp.returncode, cp.stdout + cp.stderr


def load_mutants(props):
    items = []
    for path in sorted(glob.glob(os.path.join(core.VERIF, "mutants", "*.json"))):
        with open(path) as f:
            m = json.load(f)
        m["name"] = os.path.basename(path)[:-5]
        m["source"] = "mutants"
        items.append(m)
    for d in sorted(glob.glob(os.path.join(core.VERIF, "seeded", "*"))):
        meta_p, patch_p = os.path.join(d, "meta.json"), os.path.join(d, "patch.diff")
        if os.path.exists(meta_p) and os.path.exists(patch_p):
            with open(meta_p) as f:
                meta = json.load(f)
            if meta.get("applies_to_head") is False:
                continue      # kept as a record: later fix: commits rewrote the lines the patch touches
            items.append({"name": os.path.basename(d), "property": meta["property"], "patch": patch_p,
                          "source": "seeded", "expect": meta.get("expect", "caught")})
    return [m for m in items if m["property"] in props]


def apply_mutant(copy, m):
    if "patch" in m:
        cp = subprocess.run(["patch", "-p1", "--fuzz=3", "-s", "-i", m["patch"]], cwd=copy, capture_output=True, text=True)
        if cp.returncode != 0:
            raise core.HarnessError(f"patch {m['patch']} does not apply: {cp.stdout}{cp.stderr}")
        for junk in glob.glob(os.path.join(copy, "**", "*.orig"), recursive=True):
            os.remove(junk)
        return
    for e in m["edits"]:
        path = os.path.join(copy, e["file"])
        with open(path) as f:
            s = f.read()
        if s.count(e["old"]) != 1:
            raise core.HarnessError(f"mutant {m['name']}: anchor occurs {s.count(e['old'])} times in {e['file']}")
        with open(path, "w") as f:
            f.write(s.replace(e["old"], e["new"]))


def _scratch_worktree():
    """A detached git worktree of REPO's HEAD plus its uncommitted ECAgent/ changes (for patches: allows 3-way apply)."""
    base = tempfile.mkdtemp(prefix="ecagent-verif-", dir="/var/tmp")
    wt = os.path.join(base, "wt")
    cp = subprocess.run(["git", "-C", core.REPO, "worktree", "add", "-q", "--detach", wt, "HEAD"], capture_output=True, text=True)
    if cp.returncode != 0:
        shutil.rmtree(base, ignore_errors=True)
        return None, None
    shutil.rmtree(os.path.join(wt, "ECAgent"))
    shutil.copytree(os.path.join(core.REPO, "ECAgent"), os.path.join(wt, "ECAgent"), ignore=shutil.ignore_patterns("__pycache__"))
    subprocess.run(["git", "update-index", "-q", "--refresh"], cwd=wt, capture_output=True)   # the copies have new stat data
    return base, wt


def _one_mutant(args):
    m, seed = args
    base = None
    if "patch" in m:
        base, copy = _scratch_worktree()
    if base is None:
        copy = _scratch_copy()
    out_dir = os.path.join(base or copy, "_out")
    try:
        try:
            if base is not None:
                cp = subprocess.run(["git", "apply", "--3way", m["patch"]], cwd=copy, capture_output=True, text=True)
                if cp.returncode != 0 or "with conflicts" in (cp.stdout + cp.stderr):
                    subprocess.run(["git", "checkout", "--", "ECAgent"], cwd=copy, capture_output=True)
                    subprocess.run(["git", "reset", "-q"], cwd=copy, capture_output=True)
                    shutil.rmtree(os.path.join(copy, "ECAgent"))
                    shutil.copytree(os.path.join(core.REPO, "ECAgent"), os.path.join(copy, "ECAgent"),
                                    ignore=shutil.ignore_patterns("__pycache__"))
                    cp2 = subprocess.run(["git", "apply", m["patch"]], cwd=copy, capture_output=True, text=True)   # working tree only
                    if cp2.returncode != 0:
                        raise core.HarnessError(f"patch {m['patch']} does not apply (3-way): {(cp.stdout + cp.stderr)[-300:]}")
            else:
                apply_mutant(copy, m)
        except core.HarnessError as e:
            return {"name": m["name"], "property": m["property"], "source": m["source"], "exit": 2, "caught": False,
                    "expect": m.get("expect", "caught"), "summary": f"DOES NOT APPLY: {e}"[:300], "wall_s": 0.0,
                    "note": m.get("note", "")}
        t0 = time.time()
        rc, log = _run_check_on(copy, m["property"], out_dir, seed)
        vio = [ln for ln in log.splitlines() if ln.startswith("VIOLATION ")]
        kind = [ln for ln in log.splitlines() if ln.startswith("minimised ")]
        return {"name": m["name"], "property": m["property"], "source": m["source"], "exit": rc,
                "caught": rc == 1 and bool(vio), "expect": m.get("expect", "caught"),
                "summary": (kind[0] if kind else log.strip().splitlines()[-1] if log.strip() else "")[:300],
                "wall_s": round(time.time() - t0, 1), "note": m.get("note", "")}
    finally:
        if base is not None:
            subprocess.run(["git", "-C", core.REPO, "worktree", "remove", "--force", copy], capture_output=True)
            shutil.rmtree(base, ignore_errors=True)
        else:
            shutil.rmtree(copy, ignore_errors=True)


def sensitivity(props, seed, a):
    muts = load_mutants(props)
    results = []
    with cf.ThreadPoolExecutor(max_workers=int(os.environ.get("VERIF_SENS_PAR", "3"))) as ex:
        for r in ex.map(_one_mutant, [(m, seed) for m in muts]):
            results.append(r)
            tag = "caught" if r["caught"] else ("SURVIVED" if r["exit"] == 0 else f"exit {r['exit']}")
            print(f"sensitivity {r['property']} {r['name']} [{r['source']}]: {tag} ({r['wall_s']}s) {r['summary']}")
    bad = [r for r in results if (r["expect"] == "caught") != r["caught"]]
    out = os.path.join(os.environ.get("VERIF_OUT", core.VERIF), "evidence", "sensitivity.json")
    os.makedirs(os.path.dirname(out), exist_ok=True)
    with open(out, "w") as f:
        json.dump({"seed": seed, "mutants": len(results), "caught": sum(r["caught"] for r in results),
                   "results": results}, f, indent=1, sort_keys=True)
    print(f"sensitivity: {sum(r['caught'] for r in results)}/{len(results)} caught; unexpected: {[r['name'] for r in bad]}")
    return 1 if bad else 0


def main(which, props, seed, a):
    props = [p.upper() for p in props]
    if which == "determinism":
        return determinism(props, seed, a)
    return sensitivity(props, seed, a)
