"""Batch runner: fans seeded runs out over forked workers, merges summaries, classifies
violations against known_findings.json, minimises and writes/validates replay files,
writes evidence. Wall-clock is read here only (budgets, throughput) - never inside a run."""
import concurrent.futures as cf
import faulthandler
import importlib
import json
import multiprocessing as mp
import os
import subprocess
import sys
import time
from collections import Counter

from . import core
from .core import HarnessError, RunTimeout
from .ddmin import minimise

RUN_TIMEOUT = float(os.environ.get("VERIF_RUN_TIMEOUT", "60"))
KNOWN_FILE = os.path.join(core.VERIF, "known_findings.json")
OUT = os.environ.get("VERIF_OUT", core.VERIF)   # evidence/ and replays/ live here (redirected by the sensitivity self-test)


def load_prop(prop):
    return importlib.import_module(f"props.{prop.lower()}")


def load_known(prop):
    if not os.path.exists(KNOWN_FILE):
        return []
    with open(KNOWN_FILE) as f:
        data = json.load(f)
    return [e for e in data.get("findings", []) if e.get("property") == prop and e.get("status") == "known"]


def _chunk_worker(args):
    prop, verif_seed, tier, indices, recheck_every, sample_want = args
    faulthandler.dump_traceback_later(RUN_TIMEOUT * 3 + 120, exit=True)
    try:
        mod = load_prop(prop)
        s = {"runs": 0, "violations": [], "faults": Counter(), "probes": Counter(), "steps": 0,
             "sim_time": 0, "events": 0, "nontrivial_sigs": set(), "all_sigs": 0, "states": set(),
             "rechecked": 0, "samples": [], "harness_errors": []}
        for i in indices:
            try:
                sc = core.generate(mod, verif_seed, i, tier)
                with core.alarm(RUN_TIMEOUT):
                    out = core.run_one(mod, sc)
                if recheck_every and i % recheck_every == 0:
                    with core.alarm(RUN_TIMEOUT):
                        out2 = core.run_one(mod, sc)
                    s["rechecked"] += 1
                    k1 = out["violation"]["kind"] if out["violation"] else None
                    k2 = out2["violation"]["kind"] if out2["violation"] else None
                    # strict for clean runs: two clean executions of one scenario must have identical traces (anything else is a
                    # nondeterministic harness). When an execution VIOLATES and the other one differs (other kind, other trace, or
                    # no violation at all), the code under test draws from a source no simulator can own - OS entropy, object
                    # addresses - and the violation that was observed stands.
                    if k1 is None and k2 is None and out2["digest"] != out["digest"]:
                        raise HarnessError(f"nondeterministic: run {i} digests {out['digest']} vs {out2['digest']} "
                                           f"(no violation in either execution)")
                    if k1 is None and k2 is not None:
                        out = out2
            except RunTimeout:
                s["harness_errors"].append([i, f"run exceeded {RUN_TIMEOUT}s wall clock"])
                continue
            except HarnessError as e:
                s["harness_errors"].append([i, str(e)[-1200:]])
                continue
            s["runs"] += 1
            s["steps"] += out["steps"]
            s["sim_time"] += out["sim_time"]
            s["events"] += out["events"]
            s["faults"].update(out["faults"])
            s["probes"].update(out["probes"])
            s["states"].update(out["states"])
            if out["violation"] is not None:
                v = out["violation"]
                s["violations"].append([i, v["kind"], v["detail"], v["finding"]])
            elif out["nontrivial"]:
                s["nontrivial_sigs"].add(core.digest(out["sig"] if out["sig"] is not None else sc)[:12])
                if len(s["samples"]) < sample_want:
                    s["samples"].append({"run_index": i, "scenario": sc})
        s["faults"] = dict(s["faults"])
        s["probes"] = dict(s["probes"])
        return s
    finally:
        faulthandler.cancel_dump_traceback_later()


class Batch:
    def __init__(self, prop, tier, verif_seed, runs=None, budget=None, workers=None, start=0):
        self.prop = prop
        self.mod = load_prop(prop)
        self.tier = tier
        self.seed = verif_seed
        self.workers = workers or min(16, os.cpu_count() or 1)
        self.runs = runs if runs is not None else (self.mod.QUICK_RUNS if tier == "quick" else None)
        self.budget = budget if budget is not None else (
            float(os.environ.get("VERIF_BUDGET_S", "240")) if tier == "thorough" else None)
        self.start = start if start else (self.mod.QUICK_RUNS if tier == "thorough" and runs is None else 0)
        self.total = {"runs": 0, "violations": [], "faults": Counter(), "probes": Counter(), "steps": 0,
                      "sim_time": 0, "events": 0, "nontrivial_sigs": set(), "states": set(), "rechecked": 0,
                      "samples": [], "harness_errors": []}
        self.first_index = self.start
        self.last_index = self.start - 1

    def _merge(self, s):
        t = self.total
        for k in ("runs", "steps", "sim_time", "events", "rechecked"):
            t[k] += s[k]
        t["faults"].update(s["faults"])
        t["probes"].update(s["probes"])
        t["nontrivial_sigs"].update(s["nontrivial_sigs"])
        t["states"].update(s["states"])
        t["violations"].extend(s["violations"])
        t["harness_errors"].extend(s["harness_errors"])
        for smp in s["samples"]:
            if len(t["samples"]) < 3:
                t["samples"].append(smp)

    def run(self):
        t0 = time.time()
        chunk = max(1, getattr(self.mod, "CHUNK", 200))
        recheck = getattr(self.mod, "RECHECK_EVERY", 50)
        ctx = mp.get_context("fork")
        nxt = self.start
        end = self.start + self.runs if self.runs is not None else None
        known_tags = {e["finding"] for e in load_known(self.prop)}
        stop = False
        with cf.ProcessPoolExecutor(max_workers=self.workers, mp_context=ctx) as ex:
            pending = set()

            def submit():
                nonlocal nxt
                hi = nxt + chunk if end is None else min(end, nxt + chunk)
                if hi <= nxt:
                    return False
                idx = list(range(nxt, hi))
                pending.add(ex.submit(_chunk_worker, (self.prop, self.seed, self.tier, idx, recheck, 2)))
                self.last_index = hi - 1
                nxt = hi
                return True

            while True:
                while not stop and len(pending) < self.workers * 2:
                    if self.budget is not None and time.time() - t0 > self.budget:
                        stop = True
                        break
                    if not submit():
                        stop = True
                        break
                if not pending:
                    break
                done, pending = cf.wait(pending, timeout=RUN_TIMEOUT * 4 + 300, return_when=cf.FIRST_COMPLETED)
                if not done:
                    raise HarnessError("worker pool made no progress (hang)")
                for fut in done:
                    self._merge(fut.result())
                if self.tier == "thorough" and any(v[3] not in known_tags for v in self.total["violations"]):
                    stop = True
                if self.total["harness_errors"]:
                    stop = True
        self.wall = time.time() - t0
        return self.total


def replay_path(prop, seed, index):
    d = os.path.join(OUT, "replays")
    os.makedirs(d, exist_ok=True)
    return os.path.join(d, f"{prop}-{seed}-{index}.json")


def minimise_and_write(mod, prop, seed, tier, index, scenario, budget_s=120.0):
    """Shrink the failing scenario (same violation kind and same finding tag), write the replay file."""
    t0 = time.time()
    first = core.run_one(mod, scenario, keep_trace=False)
    if first["violation"] is None:
        raise HarnessError(f"run {index} does not fail when re-executed in the parent (nondeterministic)")
    want = (first["violation"]["kind"], first["violation"]["finding"])

    def fails(sc):
        if time.time() - t0 > budget_s:
            return False
        try:
            sc = json.loads(core.canon(sc))
            with core.alarm(RUN_TIMEOUT):
                out = core.run_one(mod, sc)
        except (HarnessError, RunTimeout, TypeError, ValueError):
            return False
        v = out["violation"]
        return v is not None and (v["kind"], v["finding"]) == want

    small = minimise(mod, scenario, fails)
    small = json.loads(core.canon(small))
    final = core.run_one(mod, small, keep_trace=True)
    if final["violation"] is None or (final["violation"]["kind"], final["violation"]["finding"]) != want:
        small, final = scenario, core.run_one(mod, scenario, keep_trace=True)
    path = replay_path(prop, seed, index)
    doc = {
        "property": prop, "verif_seed": seed, "run_index": index, "tier": tier,
        "scenario_original": scenario, "scenario_min": small,
        "violation": final["violation"], "trace_min": final["trace"][-200:],
        "trace_digest_min": final["digest"], "code_fingerprint": core.code_fingerprint(),
        "ops_original": _size(scenario), "ops_min": _size(small),
        "replay_cmd": f"./check {prop} --replay {path}",
    }
    with open(path, "w") as f:
        json.dump(doc, f, indent=1, sort_keys=True)
    return path, doc


def _size(sc):
    n = 0
    for v in sc.values() if isinstance(sc, dict) else []:
        if isinstance(v, list):
            n += len(v)
    return n


def optimise_arm(prop, tier, seed):
    """Run the first K runs of this check again in a child interpreter under PYTHONOPTIMIZE=1 (asserts stripped). The child
    is a complete check (minimisation, replay verification) writing into a scratch directory; a violation found there is
    copied here as a replay file that records the environment it needs."""
    import shutil
    import tempfile
    k = 1500 if tier == "quick" else 12000
    scratch = tempfile.mkdtemp(prefix="verif-O-", dir="/var/tmp")
    t0 = time.time()
    try:
        env = dict(os.environ, PYTHONOPTIMIZE="1", VERIF_NO_ARMS="1", VERIF_OUT=scratch, VERIF_SEED=str(seed), PYTHONHASHSEED="0",
                   VERIF_NO_REEXEC="1")
        cp = subprocess.run([sys.executable, os.path.join(core.VERIF, "check"), prop, "--tier", tier, "--runs", str(k)],
                            capture_output=True, text=True, env=env, timeout=3000)
        log = cp.stdout + cp.stderr
        vio = [ln for ln in log.splitlines() if ln.startswith("VIOLATION ")]
        if cp.returncode == 1 and vio:
            src = vio[0].split("replay=")[1].strip()
            dst = replay_path(prop, seed, "O")
            with open(src) as f:
                doc = json.load(f)
            doc["needs_env"] = {"PYTHONOPTIMIZE": "1"}
            doc["replay_cmd"] = f"PYTHONOPTIMIZE=1 ./check {prop} --replay {dst}"
            with open(dst, "w") as f:
                json.dump(doc, f, indent=1, sort_keys=True, default=core._default)
            keep = [ln for ln in log.splitlines() if ln.startswith(("minimised", "  detail", "violating runs"))]
            return {"violation_replay": dst, "log": "  (found with assertions disabled: PYTHONOPTIMIZE=1)\n" + "\n".join(keep)}
        if cp.returncode != 0:
            return {"harness_error": log[-800:]}
        return {"evidence": {"runs": k, "flags": "PYTHONOPTIMIZE=1 (python -O)", "violations": 0, "wall_s": round(time.time() - t0, 2)}}
    finally:
        shutil.rmtree(scratch, ignore_errors=True)


def do_replay(prop, path):
    """Re-execute scenario_min; exit status semantics as for a check."""
    mod = load_prop(prop)
    with open(path) as f:
        doc = json.load(f)
    need = doc.get("needs_env") or {}
    if any(os.environ.get(k_) != v_ for k_, v_ in need.items()):
        # the recording was made under interpreter flags (e.g. asserts stripped): replay in such an interpreter
        env = dict(os.environ, **need)
        return subprocess.run([sys.executable, os.path.join(core.VERIF, "check"), prop, "--replay", path], env=env).returncode
    with core.alarm(RUN_TIMEOUT):
        out = core.run_one(mod, doc["scenario_min"], keep_trace=True)
    v, want = out["violation"], doc["violation"]
    same_code = doc.get("code_fingerprint") == core.code_fingerprint()
    if v is None:
        print(f"REPLAY property={prop} no violation on this tree (recorded: {want['kind']}); "
              f"code {'unchanged' if same_code else 'differs from the recording'}")
        return 2 if same_code else 0
    exact = v["kind"] == want["kind"] and v["seq"] == want["seq"] and out["digest"] == doc["trace_digest_min"]
    ok = exact or v["kind"] == want["kind"]
    print(f"REPLAY property={prop} kind={v['kind']} seq={v['seq']} digest={out['digest']} "
          f"{'reproduces-exactly' if exact else ('reproduces-same-violation (trace differs: the code under test is itself nondeterministic)' if ok else 'differs-from-recording')}")
    print(f"  detail: {v['detail']}")
    for rec in out["trace"][-12:]:
        print("  trace:", core.short(rec, 200))
    if ok or not same_code:
        print(f"VIOLATION property={prop} replay={path}")
        return 1
    return 2


def verify_replay_fresh(prop, path):
    """Replay in a fresh interpreter under another hash seed; must reproduce exactly."""
    env = dict(os.environ)
    env["PYTHONHASHSEED"] = "1234"
    env["VERIF_NO_REEXEC"] = "1"
    p = subprocess.run([sys.executable, os.path.join(core.VERIF, "check"), prop, "--replay", path],
                       capture_output=True, text=True, env=env, timeout=RUN_TIMEOUT * 2 + 60)
    return p.returncode == 1 and ("reproduces-exactly" in p.stdout or "reproduces-same-violation" in p.stdout), p.stdout + p.stderr


def write_evidence(prop, mod, tier, seed, batch, violations_unlisted, known_hits, extra=None):
    t = batch.total
    d = os.path.join(OUT, "evidence")
    os.makedirs(d, exist_ok=True)
    wall = max(batch.wall, 1e-9)
    cov = {
        "evaluations": t["runs"],
        "distinct_nontrivial": len(t["nontrivial_sigs"]),
        "rule": mod.RULE,
        "samples": t["samples"][:2] if t["samples"] else [{"note": "no non-trivial run in this batch"}],
        "runs_per_hour": int(t["runs"] / wall * 3600),
        "seeds": {"verif_seed": seed, "run_index_first": batch.first_index, "run_index_last": batch.last_index,
                  "derivation": "run_seed = sha256(f'{VERIF_SEED}/{property}/{index}')[:16]"},
        "sim_timesteps": t["sim_time"],
        "ops_executed": t["steps"],
        "events_recorded": t["events"],
        "fault_counts": dict(sorted(t["faults"].items())),
        "probes": dict(sorted(t["probes"].items())),
        "probes_at_zero": [p for p in getattr(mod, "PROBES", []) if not t["probes"].get(p)],
        "distinct_states": len(t["states"]),
        "state_measure": getattr(mod, "STATE_MEASURE", "hash of the reference model's abstract state after each op"),
        "components": mod.COMPONENTS,
        "determinism_recheck": {"runs_executed_twice": t["rechecked"], "mismatches": 0},
        "workers": batch.workers,
        "known_finding_hits": known_hits,
        "exhaustive": False,
    }
    if extra:
        cov.update(extra)
    doc = {
        "property_id": prop, "tier": tier, "seed": seed, "level": "exploration", "coverage": cov,
        "assumptions": list(getattr(mod, "ASSUMPTIONS", [])) + [
            "sampling, not enumeration: a clean batch is evidence within the stated bounds, not proof",
            "the reference model is the harness author's reading of the property statement",
            "CPython 3.12 / numpy / pandas as installed in /venv",
        ],
        "wall_s": round(batch.wall, 3),
        "violations": violations_unlisted,
    }
    with open(os.path.join(d, f"{prop}.json"), "w") as f:
        json.dump(doc, f, indent=1, sort_keys=True, default=core._default)
    return doc


def run_check(prop, tier, seed, runs=None, budget=None, workers=None, start=0, quiet=False):
    """Returns exit status 0 / 1 / 2."""
    mod = load_prop(prop)
    known = load_known(prop)
    known_tags = {e["finding"]: e for e in known}
    known_hits = {}

    # 1. witnesses of listed findings
    for e in known:
        w = e.get("witness")
        if w is None:
            continue
        with core.alarm(RUN_TIMEOUT):
            out = core.run_one(mod, json.loads(core.canon(w)))
        v = out["violation"]
        if v is not None and v["finding"] == e["finding"]:
            print(f"KNOWN-FINDING: property={prop} {e['finding']}: {e['what']}")
            known_hits[e["finding"]] = known_hits.get(e["finding"], 0) + 1
        elif v is None:
            print(f"NOTE property={prop} witness of listed finding {e['finding']} no longer fails on this tree")
        else:
            # the witness fails differently: that is an unlisted violation
            path, doc = minimise_and_write(mod, prop, seed, tier, -1, json.loads(core.canon(w)))
            print(f"VIOLATION property={prop} replay={path}")
            return 1

    # 2. the batch
    batch = Batch(prop, tier, seed, runs=runs, budget=budget, workers=workers, start=start)
    extra = {}
    total = batch.run()
    if total["harness_errors"]:
        for i, msg in total["harness_errors"][:3]:
            print(f"HARNESS-ERROR property={prop} run={i}: {msg}")
        return 2
    unlisted = [v for v in total["violations"] if v[3] not in known_tags]
    for v in total["violations"]:
        if v[3] in known_tags:
            known_hits[v[3]] = known_hits.get(v[3], 0) + 1
    no_arms = bool(os.environ.get("VERIF_NO_ARMS"))
    if not unlisted and not no_arms:
        # interpreter-flags arm: the first runs again in a fresh interpreter with assertions disabled (python -O /
        # PYTHONOPTIMIZE=1) - a deployment switch that must not change what the package does
        arm = optimise_arm(prop, tier, seed)
        if arm.get("violation_replay"):
            write_evidence(prop, mod, tier, seed, batch, 1, known_hits, extra)
            print(arm["log"])
            print(f"VIOLATION property={prop} replay={arm['violation_replay']}")
            return 1
        if arm.get("harness_error"):
            print(f"HARNESS-ERROR property={prop}: -O arm: {arm['harness_error']}")
            return 2
        extra["interpreter_flags_arm"] = arm["evidence"]
    if not unlisted and hasattr(mod, "post_batch") and not no_arms:
        # secondary arm (e.g. the real multiprocessing.Pool): only consulted when the simulated batch is clean
        post = mod.post_batch(tier, seed)
        if post.get("violation"):
            path = replay_path(prop, seed, "arm")
            with open(path, "w") as f:
                json.dump(post["violation"], f, indent=1, sort_keys=True, default=core._default)
            write_evidence(prop, mod, tier, seed, batch, 1, known_hits, extra)
            print("  detail:", core.short(post["violation"], 600))
            print(f"VIOLATION property={prop} replay={path}")
            return 1
        extra.update(post.get("evidence", {}))
    write_evidence(prop, mod, tier, seed, batch, len(unlisted), known_hits, extra)
    if not quiet:
        print(f"{prop} {tier}: runs={total['runs']} nontrivial-distinct={len(total['nontrivial_sigs'])} "
              f"states={len(total['states'])} steps={total['steps']} sim_t={total['sim_time']} "
              f"wall={batch.wall:.1f}s rate={int(total['runs'] / max(batch.wall, 1e-9) * 3600)}/h "
              f"violations={len(unlisted)} known-hits={sum(known_hits.values())}")
        zero = [p for p in getattr(mod, "PROBES", []) if not total["probes"].get(p)]
        if zero:
            print(f"WARNING property={prop} probes at zero: {zero}")
    for tag, n in sorted(known_hits.items()):
        if tag in known_tags and not any(e.get("witness") is not None for e in known if e["finding"] == tag):
            print(f"KNOWN-FINDING: property={prop} {tag}: {known_tags[tag]['what']} ({n} runs)")
    if len(total["nontrivial_sigs"]) < 2 and not unlisted:
        print(f"HARNESS-ERROR property={prop}: fewer than 2 distinct non-trivial runs - generator is broken")
        return 2
    if not unlisted:
        return 0
    unlisted.sort()
    idx, kind, detail, finding = unlisted[0]
    print(f"violating runs: {len(unlisted)} (first index {idx}: {kind}: {detail[:300]})")
    sc = core.generate(mod, seed, idx, tier)
    path = doc = None
    for cand in unlisted[:8]:       # a violating run that also fails when re-executed here (the usual case: the first one)
        try:
            sc = core.generate(mod, seed, cand[0], tier)
            path, doc = minimise_and_write(mod, prop, seed, tier, cand[0], sc)
            idx, kind, detail, finding = cand
            break
        except HarnessError:
            continue
    if doc is None:
        # None of the violating runs fails when executed again in this process: what the changed code does depends on something
        # no simulator can own (memory addresses / id() reuse, OS entropy ...). The violations were observed - they are reported,
        # with the un-minimised scenario and the recorded verdict as the replay file, and the note that replay is best effort.
        idx, kind, detail, finding = unlisted[0]
        sc = core.generate(mod, seed, idx, tier)
        path = replay_path(prop, seed, idx)
        with open(path, "w") as f:
            json.dump({"property": prop, "verif_seed": seed, "run_index": idx, "tier": tier, "scenario_original": sc,
                       "scenario_min": sc, "violation": {"kind": kind, "detail": detail, "finding": finding, "seq": None},
                       "violating_runs": len(unlisted), "code_fingerprint": core.code_fingerprint(),
                       "note": "observed in the batch (%d runs) but not when re-executed: the code under test is nondeterministic "
                               "(e.g. it depends on object addresses); replay is best effort" % len(unlisted),
                       "replay_cmd": f"./check {prop} --replay {path}"}, f, indent=1, sort_keys=True, default=core._default)
        print("  note: the violating runs do not fail when re-executed - the code under test is nondeterministic; replay is best effort")
        print(f"  detail: {detail[:500]}")
        print(f"VIOLATION property={prop} replay={path}")
        return 1
    ok, log = verify_replay_fresh(prop, path)
    if not ok:
        # The violation was observed in the batch and again while minimising, but not in the fresh interpreter: the code under
        # test is itself nondeterministic (e.g. it seeds from OS entropy) and the minimised scenario may only fail now and then.
        # Retry; then fall back to the un-minimised scenario, which failed every time it was executed so far.
        for attempt in range(4):
            ok, log = verify_replay_fresh(prop, path)
            if ok:
                break
        if not ok:
            doc["scenario_min"], doc["ops_min"] = doc["scenario_original"], doc["ops_original"]
            doc["note"] = "not minimised: the code under test is nondeterministic and the shrunk scenario failed only intermittently"
            with open(path, "w") as f:
                json.dump(doc, f, indent=1, sort_keys=True)
            for attempt in range(4):
                ok, log = verify_replay_fresh(prop, path)
                if ok:
                    break
        if ok:
            print("  note: the replay reproduces intermittently - the code under test is nondeterministic")
    if not ok:
        print(f"HARNESS-ERROR property={prop}: replay of {path} in a fresh interpreter did not reproduce:\n{log[-1500:]}")
        return 2
    print(f"minimised {doc['ops_original']} -> {doc['ops_min']} list items; "
          f"kind={doc['violation']['kind']} seq={doc['violation']['seq']}")
    print(f"  detail: {doc['violation']['detail'][:500]}")
    print(f"VIOLATION property={prop} replay={path}")
    return 1
