import argparse
import os
import sys
import threading
import traceback

from . import core

CLAIMED = ["C01", "C02", "C03", "C04", "C05", "C06", "C07", "C08", "C11", "C12", "C13", "C14", "C15", "C16",
           "C17", "C19", "C20"]


def _watchdog(seconds):
    def boom():
        sys.stdout.write(f"HARNESS-ERROR watchdog: check exceeded {seconds}s wall clock\n")
        sys.stdout.flush()
        os._exit(2)
    t = threading.Timer(seconds, boom)
    t.daemon = True
    t.start()
    return t


def main(argv):
    ap = argparse.ArgumentParser(prog="check")
    ap.add_argument("prop", nargs="*")
    ap.add_argument("--tier", default=os.environ.get("VERIF_TIER", "quick"), choices=["quick", "thorough"])
    ap.add_argument("--replay")
    ap.add_argument("--runs", type=int)
    ap.add_argument("--budget", type=float)
    ap.add_argument("--start", type=int, default=0)
    ap.add_argument("--workers", type=int)
    ap.add_argument("--selftest", choices=["determinism", "sensitivity"])
    ap.add_argument("--digests", action="store_true", help=argparse.SUPPRESS)
    a = ap.parse_args(argv)
    seed = int(os.environ.get("VERIF_SEED", core.DEFAULT_SEED))
    try:
        core.setup_repo_import()
        from . import runner
        if a.selftest:
            from . import selftest
            return selftest.main(a.selftest, a.prop or CLAIMED, seed, a)
        if a.digests:
            from . import selftest
            return selftest.print_digests(a.prop, seed, a.tier, a.start, a.runs or 100, a.workers or 16)
        props = CLAIMED if a.prop == ["all"] else a.prop
        if not props:
            ap.error("property id required")
        worst = 0
        for p in props:
            p = p.upper()
            if a.replay:
                _watchdog(600)
                return runner.do_replay(p, a.replay)
            budget = a.budget if a.budget is not None else None
            wd = _watchdog((budget or float(os.environ.get("VERIF_BUDGET_S", "240")) if a.tier == "thorough" else 0)
                           + 1500)
            rc = runner.run_check(p, a.tier, seed, runs=a.runs, budget=budget, workers=a.workers, start=a.start)
            wd.cancel()
            worst = max(worst, rc)
        return worst
    except core.HarnessError as e:
        print(f"HARNESS-ERROR {e}")
        return 2
    except Exception:
        print("HARNESS-ERROR unexpected exception in the check driver:")
        traceback.print_exc(file=sys.stdout)
        return 2
