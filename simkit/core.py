"""Core of the simulator: seed derivation, canonical digests, the per-run recorder (Ctx),
violation / harness-error classification and scenario execution (optionally in a forked
child of a pristine parent).

Rules enforced here (DESIGN.md 2.1):
  * generation consumes randomness (a private random.Random), execution consumes none;
  * no logging path draws randomness or reads a clock;
  * digests are over canonical JSON only.
"""
import hashlib
import inspect
import json
import os
import pickle
import random
import signal
import sys
import traceback
from collections import Counter
from fractions import Fraction

REPO = os.path.realpath(os.environ.get("VERIF_REPO", "/repo"))
VERIF = os.path.dirname(os.path.dirname(os.path.abspath(__file__)))
DEFAULT_SEED = 20260927


def setup_repo_import():
    """Import ECAgent from the working tree of REPO (never from an installed copy)."""
    sys.dont_write_bytecode = True
    if sys.path[0] != REPO:
        sys.path.insert(0, REPO)
    import ECAgent  # noqa
    here = os.path.dirname(os.path.realpath(ECAgent.__file__))
    want = os.path.join(REPO, "ECAgent")
    if here != want:
        raise HarnessError(f"ECAgent imported from {here}, expected {want}")
    import logging
    logging.getLogger('MODEL').addHandler(logging.NullHandler())
    logging.getLogger('MODEL').propagate = False


def code_fingerprint():
    h = hashlib.sha256()
    d = os.path.join(REPO, "ECAgent")
    for name in sorted(os.listdir(d)):
        if name.endswith(".py"):
            h.update(name.encode())
            with open(os.path.join(d, name), "rb") as f:
                h.update(f.read())
    return h.hexdigest()[:16]


def run_seed(verif_seed, prop, index):
    return int(hashlib.sha256(f"{verif_seed}/{prop}/{index}".encode()).hexdigest()[:16], 16)


def _default(o):
    if isinstance(o, Fraction):
        return {"frac": [o.numerator, o.denominator]}
    if isinstance(o, (set, frozenset)):
        raise TypeError("sets are not allowed in traces (hash order)")
    if isinstance(o, tuple):
        return list(o)
    if isinstance(o, bytes):
        return o.hex()
    try:
        import numpy as np
        if isinstance(o, np.generic):
            return o.item()
        if isinstance(o, np.ndarray):
            return o.tolist()
    except ImportError:  # pragma: no cover
        pass
    raise TypeError(f"not canonicalisable: {type(o)}")


def canon(obj):
    return json.dumps(obj, sort_keys=True, separators=(",", ":"), default=_default, allow_nan=True)


def digest(obj):
    return hashlib.sha256(canon(obj).encode()).hexdigest()[:16]


def short(obj, n=300):
    try:
        s = canon(obj)
    except TypeError:
        s = repr(obj)
    return s if len(s) <= n else s[:n] + "..."


class Violation(Exception):
    """The real code broke the property. kind: stable class name used by minimisation/replay."""

    def __init__(self, kind, detail="", finding=None):
        super().__init__(f"{kind}: {detail}")
        self.kind = kind
        self.detail = detail
        self.finding = finding


class HarnessError(Exception):
    """Something went wrong in the machinery itself - never a pass and never a VIOLATION."""


class RunTimeout(BaseException):
    pass


class ThreadHop:
    """n persistent helper threads. run(k, thunk) executes thunk() on helper k while the caller waits for it: strict hand-over,
    never two threads running at once, so WHICH thread issues an operation is decided by the scenario and nothing else."""

    def __init__(self, n):
        import queue
        import threading
        self.n = n
        self._idents = set()
        self._inbox = [queue.SimpleQueue() for _ in range(n)]
        self._outbox = queue.SimpleQueue()
        self._threads = []
        for i in range(n):
            t = threading.Thread(target=self._loop, args=(i,), name=f"verif-caller-{i}", daemon=True)
            t.start()
            self._threads.append(t)

    def _loop(self, i):
        import threading
        self._idents.add(threading.get_ident())
        while True:
            thunk = self._inbox[i].get()
            if thunk is None:
                return
            try:
                r_ = thunk()
                thunk = None                # (nothing of the operation stays referenced by the idle helper)
                self._outbox.put((True, r_))
                r_ = None
            except BaseException as e:      # handed back to the waiting caller, traceback and all
                thunk = None
                self._outbox.put((False, e))
                e = None

    def inside(self):
        import threading
        return threading.get_ident() in self._idents

    def run(self, k, thunk):
        self._inbox[k].put(thunk)
        ok, v = self._outbox.get()
        if ok:
            return v
        raise v

    def close(self):
        for q in self._inbox:
            q.put(None)


class Ctx:
    """Per-run recorder. seq is the global event sequence number."""

    def __init__(self, keep_trace=True):
        self.seq = 0
        self.keep_trace = keep_trace
        self.trace = []
        self._h = hashlib.sha256()
        self.faults = Counter()
        self.probes = Counter()
        self.steps = 0          # operations applied to the real code
        self.sim_time = 0       # simulated timesteps covered
        self.states = set()     # abstract reference-state signatures visited (ints)
        self.nontrivial = False
        self.sig = None         # history signature (string) for distinct counting
        self.notes = {}
        self.freshen = True     # see call()
        self.callstyle = "as-written"   # or "positional": keyword arguments are passed by position where the signature allows
        self.cleanups = []      # callables run after the scenario, whatever its outcome (e.g. StepGate.abandon)
        self.in_step = False    # True while the harness thread operates inside a parked timestep (simkit.stepgate)
        self.gc_at = ()         # operation indexes before which the garbage collector runs (automatic collection is off then)
        self.ncalls = 0
        self.hop = None         # ThreadHop: operations are issued from several caller threads, strictly one at a time
        self.hop_rng = None

    def event(self, *items):
        self.seq += 1
        rec = [self.seq, *items]
        s = canon(rec)
        self._h.update(s.encode())
        self._h.update(b"\n")
        if self.keep_trace:
            self.trace.append(json.loads(s))
        return self.seq

    def fault(self, kind, n=1):
        self.faults[kind] += n

    def probe(self, name, n=1):
        self.probes[name] += n

    def state(self, obj):
        self.states.add(int(hashlib.sha256(canon(obj).encode()).hexdigest()[:12], 16))

    def fail(self, kind, detail="", finding=None):
        raise Violation(kind, detail if isinstance(detail, str) else short(detail), finding)

    def check(self, cond, kind, detail="", finding=None):
        if not cond:
            self.fail(kind, detail() if callable(detail) else detail, finding)

    def call(self, fn, *a, **k):
        """Apply one operation to the real code: ('ok', value) | ('exc', exception).
        Plain str / int arguments are handed over as equal but DISTINCT objects (fresh): ids, names, tags and numbers
        that reach the package from a file, a computation or another process are never the object it stored earlier,
        so nothing may hinge on `is` where equality is meant (CPython's small-int / literal sharing hides that)."""
        self.steps += 1
        self.ncalls += 1
        if self.gc_at and self.ncalls in self.gc_at:
            import gc
            gc.collect()
        if self.freshen:
            a = tuple(fresh(x) for x in a)
            k = {n: fresh(x) for n, x in k.items()}
        if k and self.callstyle == "positional":
            a, k = positional(fn, a, k)
        try:
            if self.hop is not None and not self.hop.inside():
                who = self.hop_rng.randrange(self.hop.n + 1)       # 0: the harness thread itself
                if who:
                    return ("ok", self.hop.run(who - 1, lambda: fn(*a, **k)))
            return ("ok", fn(*a, **k))
        except (RunTimeout, Violation, HarnessError):
            raise   # raised by a harness callback running inside the operation (e.g. a disk-event invariant)
        except Exception as e:  # the real code's answer, judged by the oracle
            return ("exc", e)

    def expect_ok(self, what, fn, *a, **k):
        st, v = self.call(fn, *a, **k)
        if st != "ok":
            self.fail(f"{what}:unexpected-exception", f"{type(v).__name__}: {v}")
        return v

    def expect_raises(self, what, excs, fn, *a, **k):
        """The operation must be rejected with one of the documented classes (exact class or subclass)."""
        st, v = self.call(fn, *a, **k)
        if st == "ok":
            self.fail(f"{what}:not-rejected", f"returned {short(_safe(v))}")
        if not isinstance(v, excs):
            self.fail(f"{what}:wrong-exception", f"{type(v).__name__}: {v}")
        return v

    def digest(self):
        return self._h.hexdigest()[:16]


def positional(fn, a, k):
    """The same call with its keyword arguments moved into positional slots as far as the callee's signature allows (a
    caller is free to write execute_systems(True) for execute_systems(throw_error=True)); anything unclear stays as it is."""
    try:
        params = list(inspect.signature(fn).parameters.values())
    except (TypeError, ValueError):
        return a, k
    a, k = list(a), dict(k)
    for i, p in enumerate(params):
        if p.kind is not inspect.Parameter.POSITIONAL_OR_KEYWORD:
            break
        if i < len(a):
            continue
        if p.name not in k:
            break
        a.append(k.pop(p.name))
    return tuple(a), k


def fresh(x):
    """An equal object that is not the same object, where CPython allows one (exact str of length >= 2, exact int
    outside the shared small-int range); tuples are rebuilt element-wise; everything else is passed as it is."""
    t = type(x)
    if t is str:
        return "".join([x[:1], x[1:]]) if len(x) >= 2 else x
    if t is int:
        return (x + 1) - 1 if not -5 <= x <= 256 else x      # (arithmetic, not str(): integers of any length)
    if t is tuple:
        return tuple(fresh(e) for e in x)
    return x


def _safe(v):
    try:
        canon(v)
        return v
    except Exception:
        return repr(v)


def _in_repo(tb):
    """True when the exception was raised by the package itself (innermost frame in ECAgent) or by a
    library the package called (innermost frame outside /verif with an ECAgent frame beneath it).
    An exception raised by harness code - even inside a System.execute called by the scheduler - is a
    harness error, never a violation."""
    pkg = os.path.join(REPO, "ECAgent") + os.sep
    frames = traceback.extract_tb(tb)
    if not frames:
        return False
    inner = os.path.realpath(frames[-1].filename)
    if inner.startswith(pkg):
        return True
    if inner.startswith(VERIF + os.sep):
        return False
    # library frame: attribute it to whichever of package / harness called into it last
    for fs in reversed(frames):
        f = os.path.realpath(fs.filename)
        if f.startswith(pkg):
            return True
        if f.startswith(VERIF + os.sep):
            return False
    return False


def execute(mod, scenario, keep_trace=False):
    """Run one scenario against the real code. Returns a JSON-able outcome dict.
    Never raises for a violation; raises HarnessError for machinery failures."""
    ctx = Ctx(keep_trace=keep_trace)
    viol = None
    # The ambient generators belong to the simulator: every run starts from the same ambient state, so that
    # code which (wrongly) draws from them still behaves reproducibly and its failure replays exactly.
    random.seed(0xEC4A6E47)
    np = sys.modules.get("numpy")
    if np is not None:
        np.random.seed(20260927)
    if isinstance(scenario, dict) and scenario.get("callstyle") == "positional":
        ctx.callstyle = "positional"
        ctx.probe("keyword_arguments_passed_by_position")
    if isinstance(scenario, dict) and scenario.get("gc_at"):
        # garbage collection is an event of the schedule: the automatic (allocation-count driven) collector is switched off for
        # the run and full collections happen right before the operations the scenario names
        import gc
        gc.collect()
        gc.disable()
        ctx.cleanups.append(gc.enable)
        ctx.gc_at = frozenset(int(i) for i in scenario["gc_at"])
        ctx.fault("lifetime.collector_runs", len(ctx.gc_at))
        ctx.probe("garbage_collection_scheduled_by_the_scenario")
    if isinstance(scenario, dict) and scenario.get("threads"):
        th = scenario["threads"]
        ctx.hop = ThreadHop(int(th["n"]))
        ctx.hop_rng = random.Random(int(th["seed"]))
        ctx.cleanups.append(ctx.hop.close)
        ctx.fault("schedule.caller_thread_changes")
        ctx.probe("operations_issued_from_several_caller_threads")
    try:
        try:
            mod.execute(scenario, ctx)
        finally:
            for fn in ctx.cleanups:
                fn()
    except Violation as v:
        viol = {"kind": v.kind, "seq": ctx.seq, "detail": v.detail, "finding": v.finding}
    except RunTimeout:
        raise
    except HarnessError:
        raise
    except RecursionError as e:
        viol = {"kind": "crash:RecursionError", "seq": ctx.seq, "detail": str(e)[:200], "finding": None}
    except Exception as e:
        # An exception escaping from inside the package while the harness was only observing
        # is the real code's failure; anything else is a bug in the machinery.
        if _in_repo(e.__traceback__):
            fs = [f for f in traceback.extract_tb(e.__traceback__)]
            where = f"{os.path.basename(fs[-1].filename)}:{fs[-1].name}"
            viol = {"kind": f"crash:{type(e).__name__}", "seq": ctx.seq,
                    "detail": f"{type(e).__name__}: {str(e)[:200]} at {where}", "finding": None}
        else:
            raise HarnessError("exception in harness: " + "".join(
                traceback.format_exception(type(e), e, e.__traceback__))[-1500:])
    out = {
        "violation": viol,
        "digest": ctx.digest(),
        "faults": dict(ctx.faults),
        "probes": dict(ctx.probes),
        "steps": ctx.steps,
        "sim_time": ctx.sim_time,
        "events": ctx.seq,
        "nontrivial": bool(ctx.nontrivial),
        "sig": ctx.sig,
        "states": sorted(ctx.states),
        "notes": ctx.notes,
    }
    if keep_trace:
        out["trace"] = ctx.trace
    return out


def execute_isolated(mod, scenario, keep_trace=False, timeout=60):
    """Run the scenario in a forked child of this (pristine) process: process-global state touched
    by the run (global tag library, per-class stores on Agent/Environment) dies with the child."""
    r, w = os.pipe()
    pid = os.fork()
    if pid == 0:
        code = 0
        try:
            os.close(r)
            try:
                out = execute(mod, scenario, keep_trace)
            except HarnessError as e:
                out = {"harness_error": str(e)}
            except BaseException as e:  # noqa
                out = {"harness_error": f"{type(e).__name__}: {e}"}
            data = pickle.dumps(out)
            off = 0
            while off < len(data):
                off += os.write(w, data[off:off + 65536])
        except BaseException:  # noqa
            code = 3
        finally:
            os._exit(code)
    os.close(w)
    chunks = []
    try:
        while True:
            b = os.read(r, 1 << 16)
            if not b:
                break
            chunks.append(b)
    except RunTimeout:
        try:
            os.kill(pid, signal.SIGKILL)
        except OSError:
            pass
        os.waitpid(pid, 0)
        os.close(r)
        raise
    os.close(r)
    _, status = os.waitpid(pid, 0)
    if status != 0 or not chunks:
        raise HarnessError(f"isolated child died with status {status}")
    out = pickle.loads(b"".join(chunks))
    if "harness_error" in out:
        raise HarnessError(out["harness_error"])
    return out


def run_one(mod, scenario, keep_trace=False):
    if getattr(mod, "ISOLATE", True):   # default: every run in a forked child of a pristine process
        return execute_isolated(mod, scenario, keep_trace)
    return execute(mod, scenario, keep_trace)


def generate(mod, verif_seed, index, tier):
    rng = random.Random(run_seed(verif_seed, mod.PROPERTY, index))
    sc = mod.generate(rng, tier)
    if isinstance(sc, dict) and "callstyle" not in sc:
        # harness-level dimension, drawn from a stream of its own: how the harness spells its calls (see Ctx.call)
        sc["callstyle"] = "positional" if random.Random(run_seed(verif_seed, mod.PROPERTY + "/callstyle", index)).random() < 0.3 else "as-written"
    if isinstance(sc, dict) and "threads" not in sc and getattr(mod, "CALLER_THREADS", True):
        # harness-level dimension, stream of its own: the operations of one history are issued by 2-4 caller threads in turn
        # (strictly one at a time, the choice drawn from the seed below) - sequential use from several threads is ordinary use
        r_ = random.Random(run_seed(verif_seed, mod.PROPERTY + "/threads", index))
        sc["threads"] = {"n": r_.randint(1, 3), "seed": r_.randrange(2 ** 32)} if r_.random() < 0.15 else None
    if isinstance(sc, dict) and "gc_at" not in sc and getattr(mod, "SCHEDULED_GC", True):
        r_ = random.Random(run_seed(verif_seed, mod.PROPERTY + "/gc", index))
        sc["gc_at"] = sorted({r_.randint(1, 120) for _ in range(r_.randint(1, 3))}) if r_.random() < 0.1 else None
    # round-trip through canonical JSON: what is executed is exactly what a replay file holds
    return json.loads(canon(sc))


class Stuck(BaseException):
    """An operation of the code under test did not return within its (generous) wall-clock allowance."""


class deadline:
    """Nested wall-clock guard for ONE operation that may not terminate (e.g. an unbounded loop in the code under test).
    Restores the enclosing run alarm on exit. The operation must normally take microseconds; the allowance is seconds."""

    def __init__(self, seconds):
        self.seconds = seconds

    def _fire(self, *_):
        raise Stuck()

    def __enter__(self):
        self.old_handler = signal.signal(signal.SIGALRM, self._fire)
        self.old_timer = signal.setitimer(signal.ITIMER_REAL, self.seconds)
        return self

    def __exit__(self, *exc):
        signal.setitimer(signal.ITIMER_REAL, 0)
        signal.signal(signal.SIGALRM, self.old_handler)
        if self.old_timer[0] > 0:
            signal.setitimer(signal.ITIMER_REAL, max(0.5, self.old_timer[0] - self.seconds))
        return False


class alarm:
    """Wall-clock backstop for one run (never a pass: surfaces as HARNESS-ERROR)."""

    def __init__(self, seconds):
        self.seconds = seconds

    def _fire(self, *_):
        raise RunTimeout()

    def __enter__(self):
        self.old = signal.signal(signal.SIGALRM, self._fire)
        signal.setitimer(signal.ITIMER_REAL, self.seconds)

    def __exit__(self, *exc):
        signal.setitimer(signal.ITIMER_REAL, 0)
        signal.signal(signal.SIGALRM, self.old)
        return False
