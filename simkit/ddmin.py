"""Delta debugging over scenario data (DESIGN.md 2.4). A candidate is kept only if `fails(candidate)`
- i.e. it still violates with the same kind and finding tag. Malformed candidates simply do not
fail in that way and are discarded, so shrinking cannot produce a wrong report."""
import copy


def _get(sc, path):
    cur = sc
    for p in path:
        cur = cur[p]
    return cur


def _set(sc, path, val):
    cur = sc
    for p in path[:-1]:
        cur = cur[p]
    cur[path[-1]] = val


def ddmin_list(sc, path, fails):
    items = list(_get(sc, path))
    n = 2
    while len(items) >= 1:
        size = max(1, len(items) // n)
        removed = False
        i = 0
        while i < len(items):
            cand_items = items[:i] + items[i + size:]
            cand = copy.deepcopy(sc)
            _set(cand, path, cand_items)
            if fails(cand):
                items = cand_items
                sc = cand
                removed = True
            else:
                i += size
        if not removed:
            if size == 1:
                break
            n = min(len(items), n * 2)
        else:
            n = max(2, n - 1)
        if not items:
            break
    return sc


def _list_paths(sc, prefix=(), depth=0):
    out = []
    if isinstance(sc, dict):
        for k in sorted(sc):
            v = sc[k]
            if isinstance(v, list) and v and all(isinstance(e, (dict, list)) for e in v):
                out.append(prefix + (k,))
            if depth < 2 and isinstance(v, (dict, list)):
                out.extend(_list_paths(v, prefix + (k,), depth + 1))
    elif isinstance(sc, list) and depth < 3:
        for i, v in enumerate(sc):
            if isinstance(v, (dict, list)):
                out.extend(_list_paths(v, prefix + (i,), depth + 1))
    return out


def _scalar_paths(sc, prefix=()):
    if isinstance(sc, dict):
        for k in sorted(sc):
            yield from _scalar_paths(sc[k], prefix + (k,))
    elif isinstance(sc, list):
        for i, v in enumerate(sc):
            yield from _scalar_paths(v, prefix + (i,))
    elif isinstance(sc, bool):
        if sc:
            yield prefix, [False]
    elif isinstance(sc, int):
        if sc != 0:
            c = [0, 1 if sc > 0 else -1, sc // 2 if sc > 0 else -((-sc) // 2), sc - 1 if sc > 0 else sc + 1]
            yield prefix, [x for i, x in enumerate(c) if x != sc and x not in c[:i]]
    elif isinstance(sc, float):
        if sc != 0.0 and sc == sc and abs(sc) != float("inf"):
            c = [0.0, float(int(sc)), sc / 2]
            yield prefix, [x for i, x in enumerate(c) if x != sc and x not in c[:i]]


def minimise(mod, scenario, fails, rounds=3, scalar_tries=1500):
    sc = copy.deepcopy(scenario)
    for _ in range(rounds):
        before = repr(sc)
        # 1. list shrinking, "ops" first, then the module's own order
        prefer = list(getattr(mod, "SHRINK_LISTS", [])) or ["ops"]
        paths = [tuple(p) if isinstance(p, (list, tuple)) else (p,) for p in prefer]
        for p in _list_paths(sc):
            if p not in paths:
                paths.append(p)
        for path in paths:
            try:
                cur = _get(sc, path)
            except (KeyError, IndexError, TypeError):
                continue
            if isinstance(cur, list) and cur:
                sc = ddmin_list(sc, path, fails)
        # 2. property-specific simplifications
        simp = getattr(mod, "simplify", None)
        if simp is not None:
            progress = True
            guard = 0
            while progress and guard < 50:
                progress = False
                guard += 1
                for cand in simp(copy.deepcopy(sc)):
                    if cand != sc and fails(cand):
                        sc = cand
                        progress = True
                        break
        # 3. generic scalar simplification
        tries = 0
        changed = True
        while changed and tries < scalar_tries:
            changed = False
            for path, cands in list(_scalar_paths(sc)):
                if path and path[-1] in getattr(mod, "SHRINK_SKIP", ()):
                    continue
                for c in cands:
                    tries += 1
                    if tries > scalar_tries:
                        break
                    cand = copy.deepcopy(sc)
                    _set(cand, path, c)
                    if fails(cand):
                        sc = cand
                        changed = True
                        break
                if tries > scalar_tries:
                    break
        if repr(sc) == before:
            break
    return sc
