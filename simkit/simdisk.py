"""SimDisk - an in-memory file system injected as the name `open` into one module's namespace
(DESIGN.md section 3). Crash model: process death. Bytes handed to the OS survive (they become
durable at flush/close, when the buffer overflows `bufsize`, and at object finalisation, as in
CPython); bytes still in the file object's buffer are lost. Every open / write / flush / close is a
numbered event; `crash_at` makes the process "die" (SimCrash, a BaseException) right before the
event with that number is applied."""
from .core import HarnessError


class SimCrash(BaseException):
    """The simulated process dies here."""


class SimFile:
    def __init__(self, disk, name, mode):
        self.disk, self.name, self.mode = disk, name, mode
        self.buf = []
        self.buflen = 0
        self.closed = False
        self.dead = False

    def _alive(self):
        if self.dead:
            raise SimCrash()
        if self.closed:
            raise ValueError("I/O operation on closed file.")

    def write(self, s):
        self._alive()
        if "r" in self.mode and "+" not in self.mode:
            import io
            raise io.UnsupportedOperation("not writable")
        if not isinstance(s, str):
            raise TypeError(f"write() argument must be str, not {type(s).__name__}")
        self.disk._event("write", self.name, s)
        self.buf.append(s)
        self.buflen += len(s)
        if self.buflen > self.disk.bufsize:
            self._drain()
        return len(s)

    def writelines(self, lines):
        for ln in lines:
            self.write(ln)

    def _drain(self):
        if self.buf:
            self.disk.files[self.name] = self.disk.files.get(self.name, "") + "".join(self.buf)
            self.buf = []
            self.buflen = 0

    def flush(self):
        self._alive()
        self.disk._event("flush", self.name, None)
        self._drain()

    def close(self):
        if self.closed or self.dead:
            return
        self.disk._event("close", self.name, None)
        self._drain()
        self.closed = True
        self.disk.open_handles.remove(self)

    def read(self, n=-1):
        self._alive()
        return self.disk.files.get(self.name, "")

    def __enter__(self):
        return self

    def __exit__(self, *exc):
        self.close()
        return False

    def __del__(self):
        try:
            if not self.closed and not self.dead:
                self._drain()
        except Exception:
            pass

    def __getattr__(self, name):
        raise HarnessError(f"SimDisk: unsupported file API used by the code under test: {name}")


class SimDisk:
    def __init__(self, bufsize=8192, crash_at=None, on_event=None, initial=None):
        self.files = dict(initial or {})     # durable content
        self.bufsize = bufsize
        self.crash_at = crash_at
        self.on_event = on_event
        self.events = []                     # [n, kind, name, payload]
        self.open_handles = []
        self.opens = {}
        self.crashed = False

    def _event(self, kind, name, payload):
        n = len(self.events) + 1
        if self.crash_at is not None and n == self.crash_at:
            self.crash()
            raise SimCrash()
        self.events.append([n, kind, name, payload])
        if self.on_event:
            self.on_event(self, n, kind, name)

    def open(self, name, mode="r", *a, **k):
        if self.crashed:
            raise SimCrash()
        if not isinstance(name, str):
            raise HarnessError(f"SimDisk: non-string path {name!r}")
        if "b" in mode:
            raise HarnessError("SimDisk: binary mode not modelled")
        core = mode.replace("t", "").replace("+", "")
        if core not in ("r", "w", "a", "x"):
            raise ValueError(f"invalid mode: {mode!r}")
        self._event("open", name, mode)
        self.opens[name] = self.opens.get(name, 0) + 1
        if core == "r" and name not in self.files:
            raise FileNotFoundError(name)
        if core == "x" and name in self.files:
            raise FileExistsError(name)
        if core in ("w", "x"):
            self.files[name] = ""            # truncation is immediate and durable
        elif core == "a":
            self.files.setdefault(name, "")
        f = SimFile(self, name, mode)
        self.open_handles.append(f)
        return f

    def crash(self):
        """Process death: everything still buffered in file objects is gone."""
        self.crashed = True
        for f in self.open_handles:
            f.dead = True
            f.buf = []
        self.open_handles = []

    def durable(self, name):
        return self.files.get(name, "")
