"""SimPool - a discrete-event simulation of multiprocessing.Pool (DESIGN.md section 3).

The scenario fixes the number of simulated workers (the `processes` argument the code under test
passes), each task's simulated duration and every tie-break, hence the completion order: one plan is
one exact interleaving. Arguments and results cross a pickle boundary, as they do between real
processes. An exception raised by a task is re-raised in the caller at the point where the real pool
would raise it (when the failing result is reached by the consumer).

Model of the real pool that is simulated:
  * tasks are cut into chunks of `chunksize` and dispatched FIFO to whichever worker is free;
  * a chunk's duration is the sum of its tasks' durations; workers are otherwise identical;
  * imap_unordered yields chunks in completion order (ties broken by the plan), imap / map in
    submission order; a failing task fails its whole chunk (multiprocessing.pool.mapstar).
Task bodies run for real, in-process, in dispatch (start) order.
"""
import heapq
import pickle

from .core import HarnessError


class _Failure:
    def __init__(self, exc):
        self.exc = exc


class SimPoolHang(BaseException):
    """The real pool would hang here: its result-handler thread died while unpickling a worker's exception, so this
    and every later result is never delivered and the consumer waits forever. Also raised by terminate() when the
    plan injects the "worker killed while sending its result" fault and a worker is in fact still busy (see terminate)."""


class _Undeliverable:
    def __init__(self, why):
        self.why = why


def _ship_exception(e):
    """What the parent process receives for an exception raised in a worker."""
    try:
        blob = pickle.dumps(e)
    except Exception as pe:     # the worker reports the encoding problem instead (multiprocessing.pool.MaybeEncodingError)
        from multiprocessing.pool import MaybeEncodingError
        return _Failure(MaybeEncodingError(pe, repr(e)))
    try:
        return _Failure(pickle.loads(blob))
    except Exception as ue:     # raised inside the parent's result-handler thread: the thread dies
        return _Undeliverable(f"{type(e).__name__} cannot be rebuilt from its pickle in the parent: {type(ue).__name__}: {ue}")


class AsyncResult:
    def __init__(self, value):
        self._v = value

    def ready(self):
        return True

    def successful(self):
        return not isinstance(self._v, _Failure)

    def wait(self, timeout=None):
        return None

    def get(self, timeout=None):
        if isinstance(self._v, _Failure):
            raise self._v.exc
        return self._v


def make_pool(plan, stats):
    """Returns a Pool class bound to one plan (durations, ties, cpu) and one stats dict."""
    durations = list(plan.get("durations") or [1])
    ties = list(plan.get("ties") or [0])
    cpu = int(plan.get("cpu", 4))
    stall = dict(plan.get("stall") or {})
    kill_mid_send = bool(plan.get("kill_mid_send"))

    class SimPool:
        def __init__(self, processes=None, initializer=None, initargs=(), maxtasksperchild=None, context=None):
            if processes is None:
                processes = cpu
            if not isinstance(processes, int) or isinstance(processes, bool):
                raise TypeError("processes must be an int")
            if processes < 1:
                raise ValueError("Number of processes must be at least 1")
            self._n = processes
            self._state = "RUN"
            self._stats = stats
            self._now = 0          # simulated time as the consumer of results has experienced it
            self._open = []        # per map call: {"start": {chunk: t}, "finish": {chunk: t}, "consumed": set()}
            stats.setdefault("pools", []).append(processes)
            if initializer is not None:
                for _ in range(processes):
                    initializer(*initargs)

        # -- context manager: real Pool.__exit__ calls terminate()
        def __enter__(self):
            self._check_running()
            return self

        def __exit__(self, *exc):
            self.terminate()
            return False

        def _check_running(self):
            if self._state != "RUN":
                raise ValueError("Pool not running")

        def close(self):
            if self._state == "RUN":
                self._state = "CLOSE"

        def _busy(self):
            """Chunks a worker is running, or whose result is on its way through the pipe, at simulated time now."""
            n = 0
            for b in self._open:
                for ci, st in b["start"].items():
                    fin = b["finish"][ci]
                    if st <= self._now and (fin > self._now or (fin == self._now and ci not in b["consumed"])):
                        n += 1
            return n

        def terminate(self):
            # Real Pool.terminate() stops the result handler and SIGTERMs the workers. A worker that is inside
            # outqueue.put(result) at that instant holds the result pipe's write lock (or blocks in a send nobody reads any
            # more); the parent's own outqueue.put(None) in _terminate_pool / _handle_tasks then waits for ever. Whether
            # that happens is a race in the real pool; here the plan decides it (fault kind pool.terminate_busy).
            busy = self._busy() if self._state in ("RUN", "CLOSE") else 0
            self._state = "TERMINATE"
            stats["terminated"] = stats.get("terminated", 0) + 1
            if busy:
                stats["terminate_busy"] = stats.get("terminate_busy", 0) + 1
                if kill_mid_send:
                    stats["terminate_busy_hang"] = stats.get("terminate_busy_hang", 0) + 1
                    raise SimPoolHang(f"Pool.terminate() (leaving `with Pool(...)`) while {busy} worker(s) were still running "
                                      "or sending a result: a worker killed inside outqueue.put keeps the result pipe's lock, "
                                      "and terminate() itself never returns")

        def join(self):
            if self._state == "RUN":
                raise ValueError("Pool is still running")
            if self._state == "CLOSE":         # workers finish everything that was submitted, then exit
                for b in self._open:
                    self._now = max([self._now] + list(b["finish"].values()))
                    b["consumed"].update(b["finish"])

        # -- the simulation
        def _simulate(self, func, tasks, chunksize, star=False):
            self._check_running()
            tasks = list(tasks)
            if chunksize is None or chunksize < 1:
                chunksize = 1
            try:
                fblob = pickle.dumps(func)
            except Exception as e:
                raise HarnessError(f"SimPool: callable does not pickle: {e!r}")
            chunks = [list(range(i, min(i + chunksize, len(tasks)))) for i in range(0, len(tasks), chunksize)]
            base = stats.get("tasks", 0)
            dur = [sum(max(0, int(durations[(base + t) % len(durations)])) for t in ch) for ch in chunks]
            # discrete-event loop; events: (time, tie-break, kind, chunk, worker); kind 0 = worker comes up
            # (stalled workers join late), kind 1 = chunk finished
            heap, start_order, completion = [], [], []
            for wk in range(self._n):
                late = int(stall.get(str(wk), 0)) if wk > 0 else 0   # worker 0 is never stalled
                heapq.heappush(heap, (late, -1, 0, -1, wk))
            free = []
            nxt = 0
            now = 0
            worker_of = {}
            sched = {"start": {}, "finish": {}, "consumed": set()}
            while heap:
                when, _tb, kind, ci, wk = heapq.heappop(heap)
                now = when
                if kind == 1:
                    completion.append(ci)
                free.append(wk)
                free.sort()
                # drain simultaneous events before dispatching, so ties are decided by the plan alone
                if heap and heap[0][0] == now:
                    continue
                while free and nxt < len(chunks):
                    w2 = free.pop(0)
                    heapq.heappush(heap, (now + dur[nxt], int(ties[(base + nxt) % len(ties)]), 1, nxt, w2))
                    start_order.append(nxt)
                    worker_of[nxt] = w2
                    sched["start"][nxt] = self._now + now
                    sched["finish"][nxt] = self._now + now + dur[nxt]
                    nxt += 1
                if nxt >= len(chunks) and not any(e[2] == 1 for e in heap):
                    break
            # run the bodies for real, in dispatch order, across the pickle boundary
            results = {}
            for ci in start_order:
                out = []
                failed = None
                for t in chunks[ci]:
                    try:
                        f = pickle.loads(fblob)
                        arg = pickle.loads(pickle.dumps(tasks[t]))
                    except Exception as e:
                        raise HarnessError(f"SimPool: task argument does not pickle: {e!r}")
                    try:
                        val = f(*arg) if star else f(arg)
                    except Exception as e:  # the worker sends the exception back (pickled, like any result)
                        failed = _ship_exception(e)
                        break
                    try:
                        out.append(pickle.loads(pickle.dumps(val)))
                    except Exception as e:
                        failed = _Failure(e)   # real pool: MaybeEncodingError reaches the caller
                        break
                results[ci] = failed if failed is not None else out
            stats["tasks"] = base + len(tasks)
            self._open.append(sched)
            stats.setdefault("batches", []).append({
                "workers": self._n, "tasks": len(tasks), "chunksize": chunksize,
                "completion": completion, "workers_used": len(set(worker_of.values())),
                "makespan": now})
            return chunks, completion, results

        def _iter(self, order, results):
            # a class-based iterator, like multiprocessing.pool.IMapIterator (NOT a generator: an exception
            # raised by a task - StopIteration included - comes out of __next__ exactly as the real pool raises it)
            return _ResultIterator(list(order), results, self, self._open[-1])

        def imap_unordered(self, func, iterable, chunksize=1):
            chunks, completion, results = self._simulate(func, iterable, chunksize)
            return self._iter(completion, results)

        def imap(self, func, iterable, chunksize=1):
            chunks, completion, results = self._simulate(func, iterable, chunksize)
            self._kill_after_undeliverable(completion, results)
            return self._iter(range(len(chunks)), results)

        @staticmethod
        def _kill_after_undeliverable(completion, results):
            dead = None
            for ci in completion:           # everything that arrives after the handler died is lost as well
                if dead is not None:
                    results[ci] = _Undeliverable(dead)
                elif isinstance(results[ci], _Undeliverable):
                    dead = results[ci].why

        def map(self, func, iterable, chunksize=None):
            chunks, completion, results = self._simulate(func, iterable, chunksize or 1)
            self._kill_after_undeliverable(completion, results)
            return list(self._iter(range(len(chunks)), results))

        def starmap(self, func, iterable, chunksize=None):
            chunks, completion, results = self._simulate(func, iterable, chunksize or 1, star=True)
            return list(self._iter(range(len(chunks)), results))

        def map_async(self, func, iterable, chunksize=None, callback=None, error_callback=None):
            try:
                v = self.map(func, iterable, chunksize)
            except HarnessError:
                raise
            except Exception as e:
                if error_callback:
                    error_callback(e)
                return AsyncResult(_Failure(e))
            if callback:
                callback(v)
            return AsyncResult(v)

        def starmap_async(self, func, iterable, chunksize=None, callback=None, error_callback=None):
            try:
                v = self.starmap(func, iterable, chunksize)
            except HarnessError:
                raise
            except Exception as e:
                if error_callback:
                    error_callback(e)
                return AsyncResult(_Failure(e))
            if callback:
                callback(v)
            return AsyncResult(v)

        def apply(self, func, args=(), kwds=None):
            return self.apply_async(func, args, kwds).get()

        def apply_async(self, func, args=(), kwds=None, callback=None, error_callback=None):
            kwds = kwds or {}
            chunks, completion, results = self._simulate(_Apply(func, kwds), [tuple(args)], 1, star=True)
            r = results[0]
            if isinstance(r, _Failure):
                if error_callback:
                    error_callback(r.exc)
                return AsyncResult(r)
            if callback:
                callback(r[0])
            return AsyncResult(r[0])

        def __getattr__(self, name):
            raise HarnessError(f"SimPool: unsupported Pool API used by the code under test: {name}")

    return SimPool


class _ResultIterator:
    def __init__(self, order, results, pool=None, sched=None):
        self._order, self._results = order, results
        self._pool, self._sched = pool, sched
        self._pos = 0
        self._buf = []
        self._dead = False

    def __iter__(self):
        return self

    def __next__(self):
        while not self._buf:
            if self._pos >= len(self._order):
                raise StopIteration
            r = self._results[self._order[self._pos]]
            if isinstance(r, _Undeliverable) or self._dead:
                self._dead = True
                raise SimPoolHang(r.why if isinstance(r, _Undeliverable) else "result handler already dead")
            if self._sched is not None:      # the consumer has now waited until this chunk's result arrived
                ci = self._order[self._pos]
                self._pool._now = max(self._pool._now, self._sched["finish"][ci])
                self._sched["consumed"].add(ci)
            self._pos += 1
            if isinstance(r, _Failure):
                if self._pool is not None and self._pool._busy():
                    self._pool._stats["failure_while_busy"] = self._pool._stats.get("failure_while_busy", 0) + 1
                raise r.exc
            self._buf = list(r)
        return self._buf.pop(0)

    next = __next__


class _Apply:
    def __init__(self, func, kwds):
        self.func, self.kwds = func, kwds

    def __call__(self, *args):
        return self.func(*args, **self.kwds)
