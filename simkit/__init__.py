"""simkit - deterministic simulation kit for the ECAgent verification checks (see /verif/DESIGN.md)."""
