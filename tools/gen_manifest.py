#!/venv/bin/python
"""Regenerates /verif/MANIFEST.json from the property modules' metadata (keeps it valid and in sync)."""
import importlib, json, os, sys
HERE = os.path.dirname(os.path.dirname(os.path.abspath(__file__)))
sys.path.insert(0, HERE); sys.path.insert(0, os.environ.get("VERIF_REPO", "/repo"))
sys.dont_write_bytecode = True
from simkit.cli import CLAIMED

NA = [
    {"property_id": "C09", "reason": "Pure function of (grid extents, coordinates) on an immutable table; quantifier has no history, schedule, clock or fault for a simulator to own - belongs to bounded enumeration, not to deterministic simulation."},
    {"property_id": "C10", "reason": "Pure function of (grid extents, centre, radius, flags) on an immutable grid; no history, schedule, clock or fault in the statement."},
    {"property_id": "C18", "reason": "Decoder.decode is straight-line code whose event order is a function of one input document; the statement says nothing about I/O faults and quantifies over configurations and inputs only."},
]
checks, served = [], []
for p in CLAIMED:
    try:
        m = importlib.import_module(f"props.{p.lower()}")
    except ModuleNotFoundError:
        continue
    served.append(p)
    checks.append({
        "property_id": p,
        "quick_cmd": f"./check {p} --tier quick",
        "thorough_cmd": f"./check {p} --tier thorough",
        "evidence_file": f"/verif/evidence/{p}.json",
        "replay_cmd_template": f"./check {p} --replay {{path}}",
        "engine": "simkit",
        "level_claimed": {"category": "exploration", "text": m.LEVEL_TEXT, "design_ref": f"DESIGN.md section 5, {p}"},
        "level_note": m.LEVEL_NOTE,
        "technique": m.TECHNIQUE,
    })
na = list(NA)
for p in CLAIMED:
    if p not in served:
        na.append({"property_id": p, "reason": "check designed (DESIGN.md section 5) but not built yet; not claimed until it is"})
man = {
    "version": 1,
    "setup_cmd": "/venv/bin/python -c \"import sys; sys.path.insert(0, '/repo'); import ECAgent.Core, ECAgent.Environments, ECAgent.Batching, ECAgent.Collectors, ECAgent.Tags\" && mkdir -p /verif/evidence /verif/replays",
    "hooks": {
        "guard": "ECAGENT_VERIF",
        "enable": "none needed: all seams (ECAgent.Batching.Pool, open() as seen by ECAgent.Collectors, Model.random, System subclasses) are reachable from outside the package; checks import ECAgent from /repo's working tree on every invocation",
        "baseline_off_cmd": "cd /repo && /venv/bin/python -m pytest -ra -q -p no:cacheprovider --timeout=900 --continue-on-collection-errors",
        "source_commits": [],
        "add_only": True,
    },
    "engines": [{"name": "simkit", "path": "/verif/simkit", "serves_properties": served,
                 "kind_free_text": "home-grown deterministic simulator: scenario-as-data generator seeded from VERIF_SEED, executable reference models, fault/rejection injection, SimPool (worker-pool scheduler), SimDisk (crash-consistent file system), StepGate (operations issued inside a parked timestep), ThreadHop (operations issued from several caller threads, strict baton passing), garbage collection scheduled by the scenario, ambient interpreter state (logging, warnings, -O, start method) as scenario dimensions, fork-per-run isolation, delta-debugging minimiser, JSON replay files"}],
    "checks": checks,
    "notes": "See DESIGN.md. Fixes to /repo are separate 'fix:' commits recorded in known_findings.json; no hook commits exist (source_commits empty).",
    "not_applicable": na,
}
json.dump(man, open(os.path.join(HERE, "MANIFEST.json"), "w"), indent=1)
print("claimed:", served, "n/a:", [x["property_id"] for x in na])
