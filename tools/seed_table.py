#!/venv/bin/python
"""Prints the markdown table of kept sub-agent changes (DESIGN.md 13.5) from seeded/*/meta.json."""
import glob, json, os
HERE = os.path.dirname(os.path.dirname(os.path.abspath(__file__)))
print("| change | property | needs, in order to manifest | confirmed (suite green, demo fails with / passes without) | quick check | history |")
print("|---|---|---|---|---|---|")
for d in sorted(glob.glob(os.path.join(HERE, "seeded", "*"))):
    m = json.load(open(os.path.join(d, "meta.json")))
    print(f"| `{m['name']}` | {m['property']} | {m['needs_to_manifest']} | {'yes' if m['confirmed'] else 'NO'} | "
          f"{'caught' if m['caught_by_quick_check'] else 'MISSED'} | {m.get('history', '')} |")
