#!/venv/bin/python
"""Prints the markdown table of kept sub-agent changes (DESIGN.md 13.5) from seeded/*/meta.json."""
import glob, json, os
HERE = os.path.dirname(os.path.dirname(os.path.abspath(__file__)))
print("| change | property | needs, in order to manifest | confirmed (suite green, demo fails with / passes without) | quick check | history |")
print("|---|---|---|---|---|---|")
for d in sorted(glob.glob(os.path.join(HERE, "seeded", "*"))):
    m = json.load(open(os.path.join(d, "meta.json")))
    if m.get("round") == "refactor":
        continue
    status = "caught" if m["caught_by_quick_check"] else ("not caught (expected: see history)" if m.get("expect") == "survive" else "MISSED")
    print(f"| `{m['name']}` | {m['property']} | {m['needs_to_manifest']} | {'yes' if m['confirmed'] else 'NO'} | "
          f"{status} | {m.get('history', '')} |")
print()
print("Behaviour-preserving refactorings (false-alarm test; all 17 quick checks were run against each):")
print()
print("| refactoring | owner property | changed lines | suite | alarms raised by any of the 17 checks |")
print("|---|---|---|---|---|")
for d in sorted(glob.glob(os.path.join(HERE, "seeded", "*"))):
    m = json.load(open(os.path.join(d, "meta.json")))
    if m.get("round") != "refactor":
        continue
    c = m["confirmation"]
    print(f"| `{m['name']}` | {m['property']} | {c.get('changed_lines')} | {c.get('suite')} | {', '.join(m['alarms']) or 'none'} |")
