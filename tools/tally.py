#!/venv/bin/python
"""Debug helper: tally (kind, finding) of violating runs for a property. usage: tally.py C03 [runs] [tier]"""
import os, sys, collections
HERE = os.path.dirname(os.path.dirname(os.path.abspath(__file__)))
sys.path.insert(0, HERE); sys.dont_write_bytecode = True
from simkit import core
core.setup_repo_import()
from simkit.runner import load_prop
prop = sys.argv[1]; n = int(sys.argv[2]) if len(sys.argv) > 2 else 2000; tier = sys.argv[3] if len(sys.argv) > 3 else "quick"
mod = load_prop(prop)
c = collections.Counter(); ex = {}
for i in range(n):
    sc = core.generate(mod, core.DEFAULT_SEED, i, tier)
    o = core.run_one(mod, sc)
    v = o["violation"]
    if v:
        k = (v["kind"], v["finding"]); c[k] += 1; ex.setdefault(k, (i, v["detail"][:200]))
for k, n_ in c.most_common():
    print(n_, k, ex[k])
