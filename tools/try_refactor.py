#!/venv/bin/python
"""False-alarm test: run quick checks against a sub-agent's behaviour-preserving refactoring.
usage: try_refactor.py <PROP> <worktree> <name> [all|own]
Stores seeded/<name>/{patch.diff,demo.py,NOTES.md,meta.json} with expect=survive. Any VIOLATION here is either a
defect of the refactoring (then it is a legitimate catch) or a false alarm of the check (then the check is wrong)."""
import json
import os
import shutil
import subprocess
import sys
import tempfile

PY = "/venv/bin/python"
VERIF = os.path.dirname(os.path.dirname(os.path.abspath(__file__)))
ALL = ["C01", "C02", "C03", "C04", "C05", "C06", "C07", "C08", "C11", "C12", "C13", "C14", "C15", "C16", "C17", "C19", "C20"]


def sh(cmd, cwd=None, env=None, timeout=3600):
    p = subprocess.run(cmd, shell=True, cwd=cwd, env=env, capture_output=True, text=True, timeout=timeout)
    return p.returncode, p.stdout + p.stderr


def main():
    prop, wt, name = sys.argv[1], sys.argv[2], sys.argv[3]
    which = sys.argv[4] if len(sys.argv) > 4 else "all"
    diff = subprocess.run("git diff -- ECAgent", shell=True, cwd=wt, capture_output=True).stdout
    if not diff.strip():
        print("no change")
        return 1
    out = os.path.join(VERIF, "seeded", name)
    os.makedirs(out, exist_ok=True)
    with open(os.path.join(out, "patch.diff"), "wb") as f:
        f.write(diff)
    for fn in ("demo.py", "NOTES.md"):
        if os.path.exists(os.path.join(wt, fn)):
            shutil.copy(os.path.join(wt, fn), os.path.join(out, fn))
    scratch = tempfile.mkdtemp(prefix="refcheck-", dir="/var/tmp")
    res = {"checks": {}}
    try:
        sh(f"git -C /repo worktree add -q --detach {scratch}/wt HEAD")
        w = f"{scratch}/wt"
        env = dict(os.environ, PYTHONPATH=w, PYTHONDONTWRITEBYTECODE="1")
        rc, log = sh(f"git apply {out}/patch.diff", cwd=w)
        res["patch_applies"] = rc == 0
        rct, logt = sh(f"{PY} -m pytest -q -p no:cacheprovider --timeout=900 tests", cwd=w, env=env)
        res["suite"] = logt.strip().splitlines()[-1] if logt.strip() else ""
        res["suite_passes"] = rct == 0 and "110 passed" in logt
        res["changed_lines"] = sum(1 for ln in diff.decode(errors="replace").splitlines()
                                   if ln[:1] in "+-" and not ln.startswith(("+++", "---")))
        props = ALL if which == "all" else [prop]
        for p in props:
            env2 = dict(os.environ, VERIF_REPO=w, VERIF_OUT=f"{scratch}/out")
            rcc, logc = sh(f"{VERIF}/check {p} --tier quick", cwd=VERIF, env=env2)
            res["checks"][p] = {"exit": rcc, "summary": [ln[:400] for ln in logc.splitlines()
                                                         if ln.startswith(("minimised", "  detail", "VIOLATION", "HARNESS"))][:5]}
            if rcc == 1:
                # keep the replay for inspection
                for ln in logc.splitlines():
                    if ln.startswith("VIOLATION"):
                        rp = ln.split("replay=")[1].strip()
                        if os.path.exists(rp):
                            shutil.copy(rp, os.path.join(out, f"alarm-{p}.json"))
    finally:
        sh(f"git -C /repo worktree remove --force {scratch}/wt")
        shutil.rmtree(scratch, ignore_errors=True)
    alarms = [p for p, r in res["checks"].items() if r["exit"] != 0]
    meta = {"property": prop, "name": name, "kind": "behaviour-preserving refactoring (false-alarm test)", "expect": "survive",
            "confirmation": res, "alarms": alarms, "round": "refactor",
            "needs_to_manifest": "nothing - the property is meant to hold",
            "confirmed": bool(res.get("suite_passes")), "caught_by_quick_check": bool(alarms),
            "repo_head": sh("git -C /repo rev-parse --short HEAD")[1].strip()}
    with open(os.path.join(out, "meta.json"), "w") as f:
        json.dump(meta, f, indent=1)
    print(name, "suite_passes", res.get("suite_passes"), "changed_lines", res.get("changed_lines"), "alarms", alarms)
    for p in alarms:
        print("  ", p, res["checks"][p]["summary"])
    return 0


if __name__ == "__main__":
    sys.exit(main())
