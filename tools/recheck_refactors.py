#!/venv/bin/python
"""Re-run ALL quick checks against every kept behaviour-preserving refactoring that still applies to /repo HEAD
(seeded/*refactor*/patch.diff) - to be repeated whenever generators or oracles were strengthened.
usage: recheck_refactors.py [name-substring]   (parallelism: VERIF_REF_PAR, default 3; VERIF_REF_RUNS=<n> runs per check instead of the quick default; VERIF_REF_PROPS="C03 C04" re-runs only those checks)"""
import concurrent.futures as cf
import glob
import json
import os
import shutil
import subprocess
import sys
import tempfile

VERIF = os.path.dirname(os.path.dirname(os.path.abspath(__file__)))
ALL = ["C01", "C02", "C03", "C04", "C05", "C06", "C07", "C08", "C11", "C12", "C13", "C14", "C15", "C16", "C17", "C19", "C20"]


def sh(cmd, cwd=None, env=None, timeout=3600):
    p = subprocess.run(cmd, shell=True, cwd=cwd, env=env, capture_output=True, text=True, timeout=timeout)
    return p.returncode, p.stdout + p.stderr


def one(d):
    name = os.path.basename(d)
    meta_p = os.path.join(d, "meta.json")
    meta = json.load(open(meta_p))
    scratch = tempfile.mkdtemp(prefix="refre-", dir="/var/tmp")
    w = f"{scratch}/wt"
    try:
        sh(f"git -C /repo worktree add -q --detach {w} HEAD")
        rc, log = sh(f"git apply {d}/patch.diff", cwd=w)
        if rc != 0:
            return name, None, "does not apply to HEAD"
        only = os.environ.get("VERIF_REF_PROPS", "").split()      # restrict to some checks; the stored results of the others are kept
        checks = dict(meta.get("confirmation", {}).get("checks", {})) if only else {}
        for p in (only or ALL):
            env = dict(os.environ, VERIF_REPO=w, VERIF_OUT=f"{scratch}/out")
            runs = os.environ.get("VERIF_REF_RUNS")
            rcc, logc = sh(f"{VERIF}/check {p} --tier quick" + (f" --runs {int(runs)}" if runs else ""), cwd=VERIF, env=env)
            checks[p] = {"exit": rcc, "summary": [ln[:400] for ln in logc.splitlines()
                                                  if ln.startswith(("minimised", "  detail", "VIOLATION", "HARNESS"))][:5]}
        alarms = [p for p, r in checks.items() if r["exit"] != 0]
        meta["confirmation"]["checks"] = checks
        meta["alarms"] = alarms
        meta["caught_by_quick_check"] = bool(alarms)
        meta["rechecked_at_repo_head"] = sh("git -C /repo rev-parse --short HEAD")[1].strip()
        meta["rechecked_at_verif_commit"] = sh(f"git -C {VERIF} rev-parse --short HEAD")[1].strip()
        json.dump(meta, open(meta_p, "w"), indent=1)
        return name, alarms, [checks[p]["summary"] for p in alarms]
    finally:
        sh(f"git -C /repo worktree remove --force {w}")
        shutil.rmtree(scratch, ignore_errors=True)


def main():
    sub = sys.argv[1] if len(sys.argv) > 1 else ""
    dirs = []
    for d in sorted(glob.glob(os.path.join(VERIF, "seeded", "*refactor*"))):
        meta = json.load(open(os.path.join(d, "meta.json")))
        if meta.get("applies_to_head") is False or sub not in os.path.basename(d):
            continue
        dirs.append(d)
    bad = 0
    with cf.ThreadPoolExecutor(max_workers=int(os.environ.get("VERIF_REF_PAR", "3"))) as ex:
        for name, alarms, info in ex.map(one, dirs):
            print(name, "alarms", alarms, info if alarms or alarms is None else "", flush=True)
            bad += bool(alarms)
    return 1 if bad else 0


if __name__ == "__main__":
    sys.exit(main())
