#!/venv/bin/python
"""Run the owning property's quick check against one or more kept changes (seeded/<name> or mutants/<name>.json).
usage: try_seed.py <name> [<name> ...]"""
import json
import os
import sys

VERIF = os.path.dirname(os.path.dirname(os.path.abspath(__file__)))
sys.path.insert(0, VERIF)
from simkit import selftest  # noqa: E402


def main():
    rc = 0
    for name in sys.argv[1:]:
        mp = os.path.join(VERIF, "mutants", name + ".json")
        if os.path.exists(mp):
            m = json.load(open(mp))
            m.update(name=name, source="mutants")
        else:
            d = os.path.join(VERIF, "seeded", name)
            meta = json.load(open(os.path.join(d, "meta.json")))
            m = {"name": name, "property": meta["property"], "patch": os.path.join(d, "patch.diff"), "source": "seeded",
                 "expect": meta.get("expect", "caught")}
        r = selftest._one_mutant((m, int(os.environ.get("VERIF_SEED", "20260927"))))
        print(name, "CAUGHT" if r["caught"] else f"exit={r['exit']}", f"({r['wall_s']}s)", r["summary"][:400], flush=True)
        if (r["expect"] == "caught") != r["caught"]:
            rc = 1
    return rc


if __name__ == "__main__":
    sys.exit(main())
