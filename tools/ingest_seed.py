#!/venv/bin/python
"""Confirm and store a sub-agent's seeded change.
usage: ingest_seed.py <PROP> <worktree> <name> "<what it needs to manifest>"
Confirms, in a fresh scratch copy outside /repo and /verif: the patch applies to /repo HEAD, the unedited suite
passes with it, demo.py fails with it and passes without it. Then runs the property's quick check against the
patched copy and records the outcome. Writes /verif/seeded/<name>/{patch.diff,demo.py,NOTES.md,meta.json}."""
import json
import os
import shutil
import subprocess
import sys
import tempfile

PY = "/venv/bin/python"
VERIF = os.path.dirname(os.path.dirname(os.path.abspath(__file__)))


def sh(cmd, cwd=None, env=None, timeout=1800):
    p = subprocess.run(cmd, shell=True, cwd=cwd, env=env, capture_output=True, text=True, timeout=timeout)
    return p.returncode, p.stdout + p.stderr


def main():
    prop, wt, name, needs = sys.argv[1], sys.argv[2], sys.argv[3], sys.argv[4]
    diff = subprocess.run("git diff -- ECAgent", shell=True, cwd=wt, capture_output=True).stdout   # bytes: keep CRLF
    if not diff.strip():
        print("no uncommitted change under ECAgent/ in", wt)
        return 1
    out = os.path.join(VERIF, "seeded", name)
    os.makedirs(out, exist_ok=True)
    with open(os.path.join(out, "patch.diff"), "wb") as f:
        f.write(diff)
    for fn in ("demo.py", "NOTES.md"):
        if os.path.exists(os.path.join(wt, fn)):
            shutil.copy(os.path.join(wt, fn), os.path.join(out, fn))
    scratch = tempfile.mkdtemp(prefix="seedcheck-", dir="/var/tmp")
    res = {}
    try:
        sh(f"git -C /repo worktree add -q --detach {scratch}/wt HEAD")
        w = f"{scratch}/wt"
        env = dict(os.environ, PYTHONPATH=w, PYTHONDONTWRITEBYTECODE="1")
        shutil.copy(os.path.join(out, "demo.py"), w)
        rc0, log0 = sh(f"{PY} demo.py", cwd=w, env=env, timeout=600)
        res["demo_without_change_exit"] = rc0
        rc, log = sh(f"git apply {out}/patch.diff", cwd=w)
        res["patch_applies"] = rc == 0
        if rc != 0:
            print("patch does not apply:", log)
        rc1, log1 = sh(f"{PY} demo.py", cwd=w, env=env, timeout=600)
        res["demo_with_change_exit"] = rc1
        res["demo_with_change_tail"] = log1.strip().splitlines()[-3:]
        rct, logt = sh(f"{PY} -m pytest -q -p no:cacheprovider --timeout=900 tests", cwd=w, env=env)
        res["suite_with_change"] = logt.strip().splitlines()[-1] if logt.strip() else ""
        res["suite_passes_with_change"] = rct == 0 and "110 passed" in logt
        imp = sh(f"{PY} -c \"import ECAgent; print(ECAgent.__file__)\"", cwd=w, env=env)[1].strip()
        res["import_path_ok"] = imp.startswith(w)
        # our check against the patched copy (VERIF_REPO must contain ECAgent/)
        env2 = dict(os.environ, VERIF_REPO=w, VERIF_OUT=f"{scratch}/out")
        rcc, logc = sh(f"{VERIF}/check {prop} --tier quick", cwd=VERIF, env=env2, timeout=3600)
        res["check_exit"] = rcc
        res["check_summary"] = [ln for ln in logc.splitlines() if ln.startswith(("minimised", "  detail", "VIOLATION", "HARNESS", prop))][:6]
    finally:
        sh(f"git -C /repo worktree remove --force {scratch}/wt")
        shutil.rmtree(scratch, ignore_errors=True)
    confirmed = (res.get("patch_applies") and res.get("suite_passes_with_change") and res.get("import_path_ok")
                 and res.get("demo_without_change_exit") == 0 and res.get("demo_with_change_exit") not in (0, None))
    meta = {"property": prop, "name": name, "needs_to_manifest": needs, "confirmed": bool(confirmed),
            "confirmation": res, "caught_by_quick_check": res.get("check_exit") == 1,
            "what_i_ran": ["git apply patch.diff in a fresh worktree of /repo HEAD under /var/tmp",
                           "PYTHONPATH=<wt> /venv/bin/python -m pytest -q -p no:cacheprovider --timeout=900 tests",
                           "PYTHONPATH=<wt> /venv/bin/python demo.py (before and after applying)",
                           f"VERIF_REPO=<wt> ./check {prop} --tier quick"],
            "repo_head": sh("git -C /repo rev-parse --short HEAD")[1].strip()}
    old = {}
    if os.path.exists(os.path.join(out, "meta.json")):
        with open(os.path.join(out, "meta.json")) as f:
            old = json.load(f)
    for k in ("history", "round"):
        if k in old:
            meta[k] = old[k]
    if len(sys.argv) > 5:
        meta["round"] = int(sys.argv[5])
    if len(sys.argv) > 6:
        meta["history"] = sys.argv[6]
    with open(os.path.join(out, "meta.json"), "w") as f:
        json.dump(meta, f, indent=1)
    print(json.dumps(meta, indent=1))
    return 0 if confirmed else 1


if __name__ == "__main__":
    sys.exit(main())
